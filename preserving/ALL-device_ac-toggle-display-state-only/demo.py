"""Demo for change 3 (toggle_display: uses the toggle's own answer, then re-queries only the state).

Runs toggle_display() against simulated devices. Doesn't depend on how many follow-up queries
are made after the toggle, only that the display state ends up right. Passes on the original
code and with the change applied.
"""
import asyncio
import logging
import sys

import msmart.crc8 as crc8
from msmart.const import FrameType
from msmart.device import AirConditioner as AC
from msmart.device.AC.command import PropertyId
from msmart.frame import Frame

logging.disable(logging.CRITICAL)


def frame(body: bytes, frame_type=FrameType.QUERY) -> bytes:
    body = bytes(body)
    body += bytes([crc8.calculate(body)])
    hdr = bytearray(10)
    hdr[0], hdr[1], hdr[2], hdr[9] = 0xAA, len(body) + 10, 0xAC, frame_type
    f = bytearray(hdr + body)
    f.append(Frame.checksum(f[1:]))
    return bytes(f)


class SimDevice:
    def __init__(self, display=True, stale_toggle_answer=False, silent=False, mute_toggle=False):
        self.display = display
        self.stale = stale_toggle_answer
        self.silent = silent
        self.mute_toggle = mute_toggle
        self.sent = []
        self.toggles = []   # beep flag of each toggle received
        self.state_queries_after_toggle = 0
        self.token = None
        self.key = None

    def state_frame(self, display=None) -> bytes:
        display = self.display if display is None else display
        b = bytearray(24)
        b[0] = 0xC0
        b[1] = 0x1
        b[2] = (2 << 5) | 5        # cool, 21C
        b[3] = 80
        b[7] = 0x30
        b[11] = b[12] = 0xFF
        b[14] = 0x00 if display else 0x70
        b[19] = 45
        return frame(b)

    async def send(self, data: bytes, retries: int = 3):
        assert data[0] == 0xAA and data[1] == len(data) - 1 and data[2] == 0xAC
        assert Frame.checksum(data[1:-1]) == data[-1]
        assert crc8.calculate(data[10:-2]) == data[-2]
        self.sent.append(data)
        await asyncio.sleep(0)
        if self.silent:
            raise TimeoutError("No response from host.")
        body = data[10:-2]
        if body[0] == 0x41 and (body[1] & 0xBF) == 0x02 and body[3] == 0xFF and body[4] == 0x02:
            assert data[9] == FrameType.QUERY
            old = self.display
            self.display = not self.display
            self.toggles.append(bool(body[1] & 0x40))
            self.state_queries_after_toggle = 0
            if self.mute_toggle:
                raise TimeoutError("No response from host.")
            return [self.state_frame(old if self.stale else None)]
        if body[0] == 0x41 and body[1] == 0x81:
            self.state_queries_after_toggle += 1
            return [self.state_frame()]
        if body[0] == 0x41 and body[1] == 0x21:
            b = bytearray(20)
            b[0], b[1], b[2], b[3], b[4] = 0xC1, 0x21, 0x01, body[3], 52
            return [frame(b)]
        if body[0] == 0xB1:
            return [frame(bytes([0xB1, 1, 0xE3, 0x00, 0x00, 2, 1, 1, 0x05]))]
        return []


def check_ids(sent):
    ids = [f[-3] for f in sent]
    for a, b in zip(ids, ids[1:]):
        assert b == (a + 1) & 0xFF, ids


async def scenario(sim: SimDevice, rich: bool):
    dev = AC("10.0.0.5", 90, 6444)
    dev._lan = sim
    if rich:
        dev._supports_humidity = True
        dev._request_energy_usage = True
        dev._supported_properties.add(PropertyId.IECO)
    return dev


async def main():
    for rich in (False, True):
        for stale in (False, True):
            for start in (True, False):
                sim = SimDevice(display=start, stale_toggle_answer=stale)
                dev = await scenario(sim, rich)
                await dev.refresh()
                assert dev.online and dev.display_on is start

                dev.beep = True
                await dev.toggle_display()
                assert sim.toggles == [True]
                assert sim.display is (not start)
                assert sim.state_queries_after_toggle >= 1
                assert dev.online and dev.display_on is (not start)
                # Rest of the state is what the device reports
                assert dev.target_temperature == 21.0 and dev.fan_speed == AC.FanSpeed.HIGH
                assert dev.operational_mode == AC.OperationalMode.COOL and dev.target_humidity == 45

                dev.beep = False
                await dev.toggle_display()
                assert sim.toggles == [True, False]
                assert sim.display is start and dev.display_on is start and dev.online
                if rich:
                    # Learned on the first refresh and still known
                    assert dev.indoor_humidity == 52 and dev.ieco is True
                check_ids(sim.sent)

    # Device that doesn't claim display control: the toggle is attempted regardless
    sim = SimDevice(display=True)
    dev = await scenario(sim, False)
    dev._supports_display_control = False
    await dev.refresh()
    await dev.toggle_display()
    assert sim.toggles == [False] and dev.display_on is False

    # Toggle itself unanswered, but the device is otherwise fine
    sim = SimDevice(display=False, mute_toggle=True)
    dev = await scenario(sim, True)
    await dev.refresh()
    await dev.toggle_display()
    assert len(sim.toggles) == 1 and dev.online and dev.display_on is True

    # Silent device: no exception, reported offline, toggle sent exactly once
    sim = SimDevice(silent=True)
    dev = await scenario(sim, True)
    dev._online = True
    await dev.toggle_display()
    n_toggle = sum(1 for f in sim.sent if f[10] == 0x41 and f[11] & 0xBF == 0x02)
    assert n_toggle == 1 and not dev.online
    check_ids(sim.sent)

    print("demo3 OK")


if __name__ == "__main__":
    asyncio.run(main())
    sys.exit(0)
