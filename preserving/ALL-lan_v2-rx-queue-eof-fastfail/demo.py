"""Demo 3: V2 exchanges when the peer answers, stays silent, or closes the connection."""
import asyncio
import os
import sys
import time
from hashlib import md5

from Crypto.Cipher import AES

from msmart.lan import LAN, ProtocolError, _LanProtocol, _LanProtocolV3

SIGN_KEY = b"xhdiwjnchekd4d512chdjx5d8e4c394D2D7S"
ENC_KEY = md5(SIGN_KEY).digest()

REQUEST = bytes.fromhex("aa20ac00000000000003418100ff03ff00020000000000000000000000000301cd9c")
RESPONSE = bytes.fromhex("aa22ac00000000000303c0014566000000300010045cff2070000000000000008bed19")
OTHER = bytes.fromhex("aa23ac00000000000303c00145660000003c0010045c6800000000000000000000018426")


def ref_encode(frame: bytes, device_id: int = 77) -> bytes:
    pad = 16 - len(frame) % 16
    body = AES.new(ENC_KEY, AES.MODE_ECB).encrypt(frame + bytes([pad]) * pad)
    length = 40 + len(body) + 16
    head = (b"\x5a\x5a\x01\x11" + length.to_bytes(2, "little") + b"\x20\x80" + bytes(4)
            + os.urandom(8) + device_id.to_bytes(8, "little") + bytes(12))
    return head + body + md5(head + body + SIGN_KEY).digest()


class FakeTransport:
    """Scripted peer. `script` maps the n-th write to a list of actions."""

    def __init__(self, protocol, script):
        self.protocol, self.script, self.written, self.closing = protocol, script, [], False

    def get_extra_info(self, name):
        return ("10.0.0.9", 6444) if name == "peername" else None

    def is_closing(self):
        return self.closing

    def _lost(self, exc):
        self.protocol.connection_lost(exc)

    def close(self):
        if not self.closing:
            self.closing = True
            asyncio.get_running_loop().call_soon(self._lost, None)

    def write(self, data):
        assert not self.closing
        self.written.append(bytes(data))
        loop = asyncio.get_running_loop()
        for action in self.script(len(self.written)):
            if action == "close":
                self.closing = True
                loop.call_soon(self._lost, None)
            elif action == "reset":
                self.closing = True
                loop.call_soon(self._lost, ConnectionResetError("reset by peer"))
            else:
                loop.call_soon(self.protocol.data_received, action)


def make_lan(scripts, protocol_class=_LanProtocol):
    lan = LAN("10.0.0.9", 6444, 77)
    transports = []

    async def connect():
        protocol = protocol_class()
        transport = FakeTransport(protocol, scripts[len(transports)])
        protocol.connection_made(transport)
        transports.append(transport)
        lan._protocol = protocol

    lan._connect = connect
    return lan, transports


async def main() -> None:
    # Prompt answer, with an unsolicited frame in front
    lan, transports = make_lan([lambda n: [ref_encode(OTHER), ref_encode(RESPONSE)]])
    assert await lan.send(REQUEST) == [OTHER, RESPONSE]
    assert len(transports[0].written) == 1

    # Answer followed immediately by the peer closing: the answer is still delivered,
    # and the following exchange uses a fresh connection
    lan, transports = make_lan([lambda n: [ref_encode(RESPONSE), "close"],
                                lambda n: [ref_encode(OTHER)]])
    assert await lan.send(REQUEST) == [RESPONSE]
    assert await lan.send(REQUEST) == [OTHER]
    assert len(transports) == 2

    # Peer closes / resets instead of answering: a protocol error or a timeout, at most
    # `retries` transmissions, and the next exchange succeeds on a new connection
    for fault in ("close", "reset"):
        lan, transports = make_lan([lambda n, fault=fault: [fault],
                                    lambda n: [ref_encode(RESPONSE)]])
        start = time.monotonic()
        try:
            await lan.send(REQUEST, retries=2)
        except (ProtocolError, TimeoutError):
            pass
        else:
            raise AssertionError("exchange with a closed peer succeeded")
        assert time.monotonic() - start < 2 * 2 + 1
        assert 1 <= len(transports[0].written) <= 2
        assert await lan.send(REQUEST) == [RESPONSE]
        assert len(transports) == 2 and len(transports[1].written) == 1

    # Silent peer: timeout after exactly `retries` transmissions, about 2 s each
    lan, transports = make_lan([lambda n: [], lambda n: [ref_encode(RESPONSE)]])
    start = time.monotonic()
    try:
        await lan.send(REQUEST, retries=2)
    except TimeoutError:
        pass
    else:
        raise AssertionError("no timeout")
    assert 3.5 < time.monotonic() - start < 5.5
    assert len(transports[0].written) == 2
    assert await lan.send(REQUEST) == [RESPONSE]

    # Answer only to the retransmission
    lan, transports = make_lan([lambda n: [ref_encode(RESPONSE)] if n == 2 else []])
    assert await lan.send(REQUEST) == [RESPONSE]
    assert len(transports[0].written) == 2

    # Non-blocking reads on an idle protocol report an empty queue
    protocol = _LanProtocol()
    try:
        await protocol.read(timeout=0)
    except asyncio.QueueEmpty:
        pass
    else:
        raise AssertionError("expected QueueEmpty")

    # Two concurrent readers each get one packet, in arrival order
    protocol = _LanProtocol()
    readers = [asyncio.ensure_future(protocol.read(timeout=1)) for _ in range(2)]
    await asyncio.sleep(0)
    protocol.data_received(b"one")
    protocol.data_received(b"two")
    assert await asyncio.gather(*readers) == [b"one", b"two"]

    # V3: peer closes during the handshake: authentication error (or timeout), only the
    # handshake request was written
    lan, transports = make_lan([lambda n: ["close"]], protocol_class=_LanProtocolV3)
    lan._protocol_version = 3
    token, key = os.urandom(64), os.urandom(32)
    try:
        await lan.authenticate(token, key, retries=2)
    except (ProtocolError, TimeoutError):
        pass
    else:
        raise AssertionError("authentication with a closed peer succeeded")
    for packet in transports[0].written:
        assert packet[:2] == b"\x83\x70" and packet[5] & 0xF == 0 and packet[8:] == token
    assert lan.token is None and lan.key is None


if __name__ == "__main__":
    asyncio.run(main())
    print("demo3 OK")
    sys.exit(0)
