"""Demo for change 4 (property, energy usage and humidity responses).

Checks decoding of property records, energy readings and humidity, directly and through AirConditioner.refresh().
"""
import asyncio
import logging
import random
import sys
from unittest.mock import patch

import msmart.crc8 as crc8
from msmart.base_device import Device
from msmart.device import AirConditioner as AC
from msmart.device.AC.command import (EnergyUsageResponse, HumidityResponse,
                                      InvalidResponseException,
                                      PropertiesResponse, PropertyId, Response)
from msmart.frame import Frame, InvalidFrameException

logging.disable(logging.CRITICAL)

REJECTED = (InvalidFrameException, InvalidResponseException)


def check(cond, msg):
    if not cond:
        print("FAIL:", msg)
        sys.exit(1)


def frame(payload: bytes, frame_type: int = 3, crc: bool = True) -> bytes:
    body = bytes(payload)
    body += bytes([crc8.calculate(body) if crc else Frame.checksum(body)])
    header = bytearray(10)
    header[0] = 0xAA
    header[1] = len(body) + 10
    header[2] = 0xAC
    header[9] = frame_type
    f = bytes(header) + body
    return f + bytes([Frame.checksum(f[1:])])


def record(pid: int, data: bytes, result: int = 0) -> bytes:
    return pid.to_bytes(2, "little") + bytes([result, len(data)]) + data


def properties(records, rid=0xB1) -> PropertiesResponse:
    resp = Response.construct(frame(bytes([rid, len(records)]) + b"".join(records)))
    check(type(resp) is PropertiesResponse, "class")
    return resp


# 1. PropertyId.decode, vendor value encodings
for prop, data, expected in [
    (PropertyId.BREEZE_AWAY, b"\x02", True), (PropertyId.BREEZE_AWAY, b"\x01", False),
    (PropertyId.BREEZELESS, b"\x01", True), (PropertyId.BREEZELESS, b"\x00", False),
    (PropertyId.BREEZELESS, b"\x02", True), (PropertyId.SELF_CLEAN, b"\x01", True),
    (PropertyId.BREEZE_CONTROL, b"\x04", 4), (PropertyId.RATE_SELECT, b"\x32", 50),
    (PropertyId.SWING_UD_ANGLE, b"\x64", 100), (PropertyId.SWING_LR_ANGLE, b"\x19", 25),
    (PropertyId.BUZZER, b"\x01", None), (PropertyId.IECO, b"\x01\x00", False), (PropertyId.IECO, b"\x00\x01", True),
]:
    value = prop.decode(data)
    check(value == expected and type(value) is type(expected), f"decode {prop!r} {data.hex()} -> {value!r}")
for prop in (PropertyId.INDOOR_HUMIDITY, PropertyId.FRESH_AIR, PropertyId.ANION):
    try:
        prop.decode(b"\x01")
        check(False, "unsupported property decoded")
    except NotImplementedError:
        pass

# 2. Known responses
resp = Response.construct(bytes.fromhex("aa21ac00000000000303b10409000001000a00000100150000012b1e020000005fa3"))
check(resp.get_property(PropertyId.SWING_UD_ANGLE) == 0 and resp.get_property(PropertyId.SWING_LR_ANGLE) == 0
      and resp.get_property(PropertyId.INDOOR_HUMIDITY) is None, "query response")
resp = Response.construct(bytes.fromhex("aa18ac00000000000302b0020a0000013209001101000089a4"))
check(resp.get_property(PropertyId.SWING_LR_ANGLE) == 50 and resp.get_property(PropertyId.SWING_UD_ANGLE) == 0, "ack")
resp = Response.construct(bytes.fromhex("aa14ac00000000000303b10109000001003c000042"))
check(type(resp) is PropertiesResponse and resp.get_property(PropertyId.SWING_UD_ANGLE) == 0, "bad CRC is exempt")

# 3. Record lists: every property reads back the value the device reported, in any order, around
#    unknown, empty and unsupported records
rnd = random.Random(4)
for _ in range(400):
    expected = {}
    records = []
    for _ in range(rnd.randrange(0, 9)):
        kind = rnd.randrange(10)
        v = rnd.randrange(256)
        if kind == 0:
            records.append(record(rnd.choice([0x001E, 0x0F00, 0x4242]), bytes(rnd.randrange(256) for _ in range(3))))
        elif kind == 1:
            records.append(record(rnd.choice(list(PropertyId)), b""))
        elif kind == 2:
            records.append(record(PropertyId.INDOOR_HUMIDITY, bytes([v])))
        elif kind == 3:
            records.append(record(PropertyId.BUZZER, bytes([v & 1])))
        elif kind == 4:
            records.append(record(PropertyId.IECO, bytes([1, v & 1]) + bytes(rnd.choice([0, 11]))))
            expected[PropertyId.IECO] = bool(v & 1)
        elif kind == 5:
            records.append(record(PropertyId.BREEZE_AWAY, bytes([1 + (v & 1)])))
            expected[PropertyId.BREEZE_AWAY] = bool(v & 1)
        elif kind == 6:
            p = rnd.choice([PropertyId.BREEZELESS, PropertyId.SELF_CLEAN])
            records.append(record(p, bytes([v & 1])))
            expected[p] = bool(v & 1)
        else:
            p = rnd.choice([PropertyId.SWING_UD_ANGLE, PropertyId.SWING_LR_ANGLE, PropertyId.RATE_SELECT,
                            PropertyId.BREEZE_CONTROL])
            records.append(record(p, bytes([v]), rnd.choice([0, 0, 0x11])))
            expected[p] = v
    resp = properties(records, rnd.choice([0xB0, 0xB1]))
    for p in PropertyId:
        check(resp.get_property(p) == expected.get(p), f"{p!r}: {resp.get_property(p)!r} != {expected.get(p)!r}")

# 4. Energy usage: BCD and binary readings
def close(a, b):
    return all(abs(x - y) < 1e-6 for x, y in zip(a, b))


for fields, bcd in [
    (("00067920", "00000000", "000000"), (679.2, 0, 0)),
    (("00564a02", "00001514", "012345"), None),  # Not valid BCD, binary only
    (("000005e0", "00000006", "000aeb"), None),
    (("12345678", "00000150", "001234"), (123456.78, 1.5, 123.4)),
    (("00000000", "00000000", "000001"), (0, 0, 0.1)),
]:
    fields = [bytes.fromhex(f) for f in fields]
    binary = [int.from_bytes(f, "big") / 10 for f in fields]
    payload = bytes([0xC1, 0x21, 0x01, 0x44]) + fields[0] + bytes(4) + fields[1] + fields[2] + bytes(5)
    for style in (True, False):
        resp = Response.construct(frame(payload, crc=style))
        check(type(resp) is EnergyUsageResponse, "energy class")
        if bcd:
            check(close((resp.total_energy, resp.current_energy, resp.real_time_power), bcd), "BCD readings")
        check([resp.total_energy_binary, resp.current_energy_binary, resp.real_time_power_binary] == binary,
              "binary readings")
resp = Response.construct(frame(bytes([0xC1, 0x21, 0x01, 0x44]) + bytes(20)))
check([resp.total_energy, resp.current_energy, resp.real_time_power, resp.total_energy_binary,
       resp.current_energy_binary, resp.real_time_power_binary] == [None] * 6, "all zero means no energy data")

# 5. Humidity: percentages are reported, zero means unknown
for h in range(0, 101):
    resp = Response.construct(frame(bytes([0xC1, 0x21, 0x01, 0x45, h]) + bytes(15)))
    check(type(resp) is HumidityResponse and resp.humidity == (h or None), "humidity")

# 6. Truncated and random group data / property responses only ever raise the documented exceptions
samples = [bytes.fromhex(h)[10:-2] for h in (
    "aa21ac00000000000303b10409000001000a00000100150000012b1e020000005fa3",
    "aa20ac00000000000203c121014400564a02640000000014ae0000000000041a22",
    "aa20ac00000000000303c12101453f546c005d0a000000de1f0000ba9a0004af9c")]
for payload in samples:
    for n in range(len(payload)):
        for v in (None, 0, 1, 0x7F, 0xFF):
            p = bytearray(payload[:n])
            if v is not None and n > 1:
                p[rnd.randrange(1, n)] = v
            try:
                Response.construct(frame(bytes(p)))
            except REJECTED:
                pass


# 7. Through the device
async def device_level():
    dev = AC(ip="127.0.0.1", port=6444, device_id=1)
    dev._supported_properties.update({PropertyId.SWING_UD_ANGLE, PropertyId.RATE_SELECT, PropertyId.IECO})
    dev._supports_humidity = True
    dev._request_energy_usage = True
    state = bytes.fromhex("aa23ac00000000000303c00145660000003c0010045c6b20000000000000000000020d79")
    props = frame(bytes([0xB1, 4]) + record(PropertyId.SWING_UD_ANGLE, b"\x32") + record(0x1234, b"\x01\x02") +
                  record(PropertyId.RATE_SELECT, b"\x4b") + record(PropertyId.IECO, b"\x01\x01"))
    cut = frame(bytes([0xB1, 1]) + record(PropertyId.SWING_UD_ANGLE, b"\x19")[:-1])
    energy = frame(bytes([0xC1, 0x21, 0x01, 0x44]) + bytes.fromhex("00067920") + bytes(4) +
                   bytes.fromhex("00000150") + bytes.fromhex("001234") + bytes(3))
    humidity = frame(bytes([0xC1, 0x21, 0x01, 0x45, 57]) + bytes(15))

    async def fake(self, command):
        return [cut, state, energy[:-3], props, energy, humidity, humidity[:16]]
    with patch.object(Device, "_send_command", fake):
        await dev.refresh()
    check(dev.online and dev.supported, "online")
    check(dev.vertical_swing_angle == AC.SwingAngle.POS_3 and dev.rate_select == AC.RateSelect.GEAR_75
          and dev.ieco is True, "properties applied")
    check(close((dev.total_energy_usage, dev.current_energy_usage, dev.real_time_power_usage), (679.2, 1.5, 123.4)),
          "energy applied")
    check(dev.indoor_humidity == 57, "humidity applied")

asyncio.run(device_level())
print("demo4 OK")
