"""Demo 2 for C19: fault sequences (timeouts / HTTP errors / API error codes) against a model cloud server.

Run: cd <worktree> && PYTHONPATH=<worktree> /venv/bin/python demo2.py
Exits 0 if the property holds in the representative cases exercised.
"""
import asyncio
import hashlib
import logging
import sys
from urllib.parse import parse_qsl, urlparse

import httpx

from msmart.cloud import ApiError, CloudError, NetHomePlusCloud

logging.disable(logging.CRITICAL)

APP_KEY = "3742e9e5842d4ad59c2db887e12449f9"


class ModelCloud:
    """A conforming model of the NetHome Plus server (order independent)."""

    def __init__(self, account, password, tokens):
        self.account = account
        self.password = password
        self.tokens = tokens  # list of dict entries returned as tokenlist
        self.login_id = "lid-" + hashlib.md5(account.encode()).hexdigest()[:12]
        self.session_id = "sess-" + hashlib.md5(password.encode()).hexdigest()[:12]
        self.faults = []  # consumed one per request
        self.requests = []  # (path, fields)
        self.violations = []

    def client(self, *args, **kwargs):
        return httpx.AsyncClient(transport=httpx.MockTransport(self.handle))

    def _ok(self, result):
        return httpx.Response(200, json={"errorCode": "0", "msg": "ok", "result": result})

    def handle(self, request: httpx.Request) -> httpx.Response:
        path = urlparse(str(request.url)).path
        ctype = request.headers.get("content-type", "")
        if request.method != "POST" or not ctype.startswith("application/x-www-form-urlencoded"):
            self.violations.append(f"bad method/content-type {request.method} {ctype}")
        pairs = parse_qsl(request.content.decode("utf-8"), keep_blank_values=True)
        fields = dict(pairs)
        if len(fields) != len(pairs):
            self.violations.append("duplicate form field")
        self.requests.append((path, fields))

        # Signature as verified by the server: over the sorted received fields
        sign = fields.pop("sign", None)
        query = "&".join(f"{k}={v}" for k, v in sorted(fields.items()))
        expect = hashlib.sha256((path + query + APP_KEY).encode()).hexdigest()
        if sign != expect:
            self.violations.append(f"bad sign on {path}")
        for k in ("appId", "src", "format", "clientType", "language", "deviceId", "stamp", "sessionId"):
            if k not in fields:
                self.violations.append(f"missing {k} on {path}")
        if fields.get("appId") != "1017" or fields.get("src") != "1017":
            self.violations.append("bad appId/src")
        stamp = fields.get("stamp", "")
        if len(stamp) != 14 or not stamp.isdigit():
            self.violations.append("bad stamp")

        # Inject faults
        if self.faults:
            fault = self.faults.pop(0)
            if fault == "timeout":
                raise httpx.ReadTimeout("model timeout", request=request)
            if fault == "connect":
                raise httpx.ConnectError("model connect error", request=request)
            if isinstance(fault, int) and fault >= 400:
                return httpx.Response(fault, text="model http failure")
            if isinstance(fault, tuple):
                return httpx.Response(200, json={"errorCode": str(fault[1]), "msg": "model api error"})

        if path == "/v1/user/login/id/get":
            if fields.get("loginAccount") != self.account:
                return httpx.Response(200, json={"errorCode": "3101", "msg": "no account"})
            return self._ok({"loginId": self.login_id})

        if path == "/v1/user/login":
            m1 = hashlib.sha256(self.password.encode()).hexdigest()
            pw = hashlib.sha256((self.login_id + m1 + APP_KEY).encode()).hexdigest()
            if fields.get("loginAccount") != self.account or fields.get("password") != pw:
                return httpx.Response(200, json={"errorCode": "3102", "msg": "bad password"})
            return self._ok({"sessionId": self.session_id, "userId": "1"})

        if path == "/v1/iot/secure/getToken":
            if fields.get("sessionId") != self.session_id:
                return httpx.Response(200, json={"errorCode": "3106", "msg": "bad session"})
            if "udpid" not in fields:
                self.violations.append("missing udpid")
            return self._ok({"tokenlist": self.tokens})

        return httpx.Response(404)


def entry(udpid, n):
    return {"udpId": udpid, "token": f"{n:02x}" * 64, "key": f"{n + 128:02x}" * 32}


async def expect_raises(coro, cls, what, failures):
    try:
        await coro
    except cls:
        return
    except Exception as e:  # pylint: disable=broad-except
        failures.append(f"{what}: raised {type(e).__name__} instead of {cls.__name__}")
        return
    failures.append(f"{what}: did not raise")


async def main() -> int:
    failures = []
    want = "4fbe0d4139de99dd88a0285e14657045"
    budget = NetHomePlusCloud.RETRIES
    stages = ["/v1/user/login/id/get", "/v1/user/login", "/v1/iot/secure/getToken"]

    def fresh():
        model = ModelCloud("u@e.com", "pw 1+1=2", [entry("00" * 16, 3), entry(want, 1), entry("ff" * 16, 2)])
        cloud = NetHomePlusCloud("DE", account="u@e.com", password="pw 1+1=2",
                                 get_async_client=model.client)
        return model, cloud

    async def flow(cloud):
        await cloud.login()
        return await cloud.get_token(want)

    # 1. k timeouts before each stage: k < budget succeeds with k+1 attempts, k >= budget -> CloudError
    for stage in range(3):
        for k in range(0, budget + 2):
            model, cloud = fresh()
            # Run the stages before the faulty one without faults
            if stage >= 1:
                cloud._login_id = await cloud._get_login_id()
            if stage == 2:
                await cloud.login()
            model.requests.clear()
            model.faults = ["timeout"] * k
            what = f"{k} timeouts at {stages[stage]}"
            if k < budget:
                if await flow(cloud) != ("01" * 64, "81" * 32):
                    failures.append(f"{what}: wrong creds")
                n = sum(1 for p, _ in model.requests if p == stages[stage])
                if n != k + 1:
                    failures.append(f"{what}: {n} attempts")
            else:
                await expect_raises(flow(cloud), CloudError, what, failures)
                if len(model.requests) > budget:
                    failures.append(f"{what}: {len(model.requests)} attempts")
                if any(p != stages[stage] for p, _ in model.requests):
                    failures.append(f"{what}: went past the failing stage")
            # Every attempt was a properly signed request (checked by the model)
            failures.extend(model.violations)

    # 2. Timeouts followed by another fault kind, within the budget
    for pre in range(0, budget):
        for fault, cls in ((500, CloudError), (403, CloudError), ("connect", CloudError),
                           (("api", 3176), ApiError), (("api", 9999), ApiError)):
            model, cloud = fresh()
            await cloud.login()
            model.requests.clear()
            model.faults = ["timeout"] * pre + [fault]
            what = f"{pre} timeouts then {fault}"
            await expect_raises(cloud.get_token(want), cls, what, failures)
            if not 1 <= len(model.requests) <= budget:
                failures.append(f"{what}: {len(model.requests)} attempts")
            # The cloud stays usable and still selects the right entry
            model.faults = []
            if await cloud.get_token(want) != ("01" * 64, "81" * 32):
                failures.append(f"{what}: wrong creds afterwards")
            failures.extend(model.violations)

    # 3. Explicit attempt budget passed to the transport layer
    for n in (1, 2, 5):
        model, cloud = fresh()
        model.faults = ["timeout"] * 10
        body = cloud._build_request_body({"loginAccount": "u@e.com"})
        body["sign"] = cloud._security.sign(stages[0], body)
        await expect_raises(cloud._post_request(cloud._base_url + stages[0], form_data=body, retries=n),
                            CloudError, f"budget {n}", failures)
        if len(model.requests) != n:
            failures.append(f"budget {n}: {len(model.requests)} attempts")
        failures.extend(model.violations)

    # 4. API error on login id / login surfaces as ApiError with the code
    for stage in range(2):
        model, cloud = fresh()
        if stage == 1:
            cloud._login_id = await cloud._get_login_id()
        model.faults = [("api", 3144)]
        try:
            await cloud.login()
            failures.append("api error at login did not raise")
        except ApiError as e:
            if e.code != 3144:
                failures.append(f"api error code {e.code}")
        failures.extend(model.violations)

    for f in failures:
        print("FAIL:", f)
    print("demo2: %s" % ("FAILED" if failures else "ok"))
    return 1 if failures else 0


if __name__ == "__main__":
    sys.exit(asyncio.run(main()))
