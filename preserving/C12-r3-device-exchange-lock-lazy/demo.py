"""C12 demo 2: frames received by a simulated V2 unit for the public AirConditioner operations,
sequentially, from two overlapping tasks, from a copy and from a second event loop."""
import asyncio
import copy
import logging
import sys

from msmart.device import AirConditioner as AC
from msmart.device.AC.command import PropertyId
from msmart.lan import _Packet

logging.disable(logging.CRITICAL)

STATE = bytes.fromhex("aa23ac00000000000303c00145660000003c0010045c6b20000000000000000000020d79")
CAPS = bytes.fromhex("aa29ac00000000000303b5071202010113020101140201011502010116020101170201001a020101dedb")
PROPS = bytes.fromhex("aa13ac00000000000303b1010a0000013200c884")


def crc8_854(data: bytes) -> int:
    crc = 0
    for b in data:
        crc ^= b
        for _ in range(8):
            crc = (crc >> 1) ^ 0x8C if crc & 1 else crc >> 1
    return crc


def parse(frame: bytes) -> int:
    assert frame[0] == 0xAA, "start byte"
    assert frame[1] == len(frame) - 1, "length byte"
    assert frame[2] == 0xAC, "appliance type"
    body = frame[10:-1]
    kind = body[0]
    expected_type = 0x02 if kind in (0x40, 0xB0) else 0x03
    assert kind in (0x40, 0x41, 0xB0, 0xB1, 0xB5), hex(kind)
    assert frame[9] == expected_type, "frame type"
    assert sum(frame[1:]) & 0xFF == 0, "checksum"
    assert crc8_854(body[:-1]) == body[-1], "crc8"
    return body[-2]


class Unit:
    """Simulated V2 unit: records every frame and answers each one."""

    def __init__(self) -> None:
        self.frames = []

    async def handle(self, reader, writer):
        try:
            while True:
                head = await reader.readexactly(6)
                length = int.from_bytes(head[4:6], "little")
                packet = head + await reader.readexactly(length - 6)
                frame = _Packet.decode(packet)
                self.frames.append(frame)
                kind = frame[10]
                reply = CAPS if kind == 0xB5 else PROPS if kind in (0xB0, 0xB1) else STATE
                writer.write(_Packet.encode(1234, reply))
                await writer.drain()
        except (asyncio.IncompleteReadError, ConnectionError):
            pass
        finally:
            writer.close()


def check_strict(frames):
    """Sequential use: ids on the wire advance by one."""
    ids = [parse(f) for f in frames]
    for a, b in zip(ids, ids[1:]):
        assert b == (a + 1) & 0xFF, ids
    return ids


def check_overlapped(frames):
    """Overlapping use: every frame is well formed, every id is used once and none is skipped."""
    ids = sorted(parse(f) for f in set(frames))
    assert len(ids) == len(set(ids)), ids
    assert len(ids) < 128
    # contiguous modulo 256
    gaps = [i for i in ids if (i + 1) & 0xFF not in ids]
    assert len(gaps) == 1, ids
    return ids


async def operations(dev: AC):
    await dev.get_capabilities()
    # The canned capabilities answer advertises no properties; enable some by hand
    dev._supports_humidity = True
    dev._supported_properties.update({PropertyId.SWING_LR_ANGLE, PropertyId.SWING_UD_ANGLE,
                                      PropertyId.SELF_CLEAN, PropertyId.BREEZELESS})
    await dev.refresh()
    dev.power_state = True
    dev.target_temperature = 21.5
    dev.operational_mode = AC.OperationalMode.COOL
    await dev.apply()
    dev.horizontal_swing_angle = AC.SwingAngle.POS_3
    await dev.apply()
    await dev.toggle_display()
    await dev.start_self_clean()


async def session(dev: AC, unit: Unit, port_holder: list):
    server = await asyncio.start_server(unit.handle, "127.0.0.1", port_holder[0])
    port_holder[0] = server.sockets[0].getsockname()[1]
    dev._port = dev._lan._port = port_holder[0]
    try:
        # Sequential use, long enough for the id to wrap
        unit.frames.clear()
        await operations(dev)
        for _ in range(70):
            await dev.refresh()
        ids = check_strict(unit.frames)
        assert len(ids) > 256, len(ids)
        kinds = {f[10] for f in unit.frames}
        assert kinds == {0x40, 0x41, 0xB0, 0xB1, 0xB5}, kinds

        # Two tasks sharing the device
        unit.frames.clear()
        await asyncio.wait_for(asyncio.gather(dev.refresh(), dev.refresh(), dev.apply()), timeout=20)
        check_overlapped(unit.frames)
        assert len(set(unit.frames)) >= 7

        # Sequential again afterwards
        unit.frames.clear()
        await dev.refresh()
        await dev.refresh()
        check_strict(unit.frames)
    finally:
        dev._lan._disconnect()
        server.close()
        await server.wait_closed()


def main() -> int:
    dev = AC(ip="127.0.0.1", port=0, device_id=1234)  # built before any loop runs
    dev.enable_energy_usage_requests = True
    unit = Unit()
    port = [0]
    asyncio.run(session(dev, unit, port))
    # Same object on a second loop, then a deep copy of it on a third
    port = [0]
    asyncio.run(session(dev, unit, port))
    clone = copy.deepcopy(dev)
    port = [0]
    asyncio.run(session(clone, unit, port))
    print("demo2 OK")
    return 0


if __name__ == "__main__":
    sys.exit(main())
