"""Demo 3: Device.set_max_connection_lifetime against loopback V2 and V3 devices."""
import asyncio
import logging
import os
import sys
from hashlib import sha256

from Crypto.Cipher import AES

from msmart.base_device import Device
from msmart.const import DeviceType
from msmart.device.AC.command import GetStateCommand
from msmart.lan import _Packet

logging.basicConfig(level=logging.CRITICAL)


def check(cond, what):
    if not cond:
        print("FAIL:", what)
        sys.exit(1)
    print("ok:", what)


def cbc(key, data, enc):
    c = AES.new(key, AES.MODE_CBC, iv=bytes(16))
    return c.encrypt(data) if enc else c.decrypt(data)


class FakeDevice(asyncio.Protocol):
    """Echoing device. V2 when token is None, otherwise V3. Logs (connection, kind, payload)."""
    connections = 0

    def __init__(self, log, token=None, key=None):
        self.log, self.token, self.key = log, token, key
        self.buf = b""
        self.local_key = None
        FakeDevice.connections += 1
        self.conn = FakeDevice.connections

    def connection_made(self, transport):
        self.transport = transport

    def data_received(self, data):
        self.buf += data
        while len(self.buf) >= 6:
            if self.token is None:
                total = int.from_bytes(self.buf[4:6], "little")
            else:
                total = int.from_bytes(self.buf[2:4], "big") + 8
            if len(self.buf) < total:
                return
            packet, self.buf = self.buf[:total], self.buf[total:]
            (self.v2 if self.token is None else self.v3)(packet)

    def v2(self, packet):
        frame = _Packet.decode(packet)
        self.log.append((self.conn, "data", frame))
        self.transport.write(_Packet.encode(1, frame))

    def v3(self, packet):
        ptype = packet[5] & 0xF
        if ptype == 0:
            self.log.append((self.conn, "handshake", packet[8:]))
            plain = os.urandom(32)
            body = cbc(self.key, plain, True) + sha256(plain).digest()
            self.local_key = bytes(a ^ b for a, b in zip(plain, self.key))
            self.transport.write(b"\x83\x70" + len(body).to_bytes(2, "big") + b"\x20\x01" + bytes(2) + body)
            return
        if ptype != 6 or self.local_key is None:
            self.log.append((self.conn, "VIOLATION", packet))
            return
        plain = cbc(self.local_key, packet[6:-32], False)
        if sha256(packet[:6] + plain).digest() != packet[-32:]:
            self.log.append((self.conn, "VIOLATION", packet))
            return
        frame = _Packet.decode(plain[2:len(plain) - (packet[5] >> 4)])
        self.log.append((self.conn, "data", frame))
        data = _Packet.encode(1, frame)
        rem = (len(data) + 2) % 16
        pad = 16 - rem if rem else 0
        header = b"\x83\x70" + (len(data) + pad + 32).to_bytes(2, "big") + b"\x20" + bytes([pad << 4 | 3])
        payload = bytes(2) + data + os.urandom(pad)
        self.transport.write(header + cbc(self.local_key, payload, True) + sha256(header + payload).digest())


async def serve(log, token=None, key=None):
    server = await asyncio.get_running_loop().create_server(lambda: FakeDevice(log, token, key), "127.0.0.1", 0)
    dev = Device(ip="127.0.0.1", port=server.sockets[0].getsockname()[1], device_id=1,
                 device_type=DeviceType.AIR_CONDITIONER)
    return server, dev


async def exchange(dev):
    cmd = GetStateCommand()
    responses = await dev._send_command(cmd)
    return len(responses) == 1 and responses[0][10:-3] == cmd.tobytes()[10:-3]


def conns(log):
    return sorted({c for c, _, _ in log})


def disciplined(log, token):
    """On every connection the first thing is a handshake with the token and nothing was rejected."""
    ok = all(kind != "VIOLATION" for _, kind, _ in log)
    for c in conns(log):
        first = next(e for e in log if e[0] == c)
        ok = ok and first[1] == "handshake" and first[2] == token
    return ok


async def main():
    # V2, limit configured before the first connection
    log = []
    server, dev = await serve(log)
    dev.set_max_connection_lifetime(1)
    check(dev._lan.max_connection_lifetime == 1, "limit is visible on the LAN layer")
    check(await exchange(dev) and await exchange(dev), "V2: two exchanges answered")
    check(len(conns(log)) == 1, "V2: both within the lifetime use one connection")
    await asyncio.sleep(1.2)
    check(await exchange(dev), "V2: exchange after the lifetime answered")
    check(len(conns(log)) == 2 and log[-1][0] == conns(log)[-1], "V2: it used a new connection")
    dev._lan._disconnect()
    server.close()

    # V2, no limit / limit removed before connecting
    for setup in ((), (None,), (3600, None), (0,)):
        log = []
        server, dev = await serve(log)
        for value in setup:
            dev.set_max_connection_lifetime(value)
        ok = True
        for _ in range(3):
            ok = ok and await exchange(dev)
            await asyncio.sleep(0.1)
        check(ok and len(conns(log)) == 1, f"V2: lifetime calls {setup}: one connection for all exchanges")
        dev._lan._disconnect()
        server.close()

    # V2, limit changed while connected: every exchange is still answered
    log = []
    server, dev = await serve(log)
    check(await exchange(dev), "V2: connected without limit")
    dev.set_max_connection_lifetime(1)
    check(await exchange(dev), "V2: exchange right after setting a limit answered")
    await asyncio.sleep(1.2)
    check(await exchange(dev), "V2: exchange after that limit elapsed answered")
    dev.set_max_connection_lifetime(None)
    check(await exchange(dev), "V2: exchange after removing the limit answered")
    check(len([e for e in log if e[1] == "data"]) == 4, "V2: device saw each command once")
    dev._lan._disconnect()
    server.close()

    # V3, limit configured before the first connection
    token, key = os.urandom(64), os.urandom(32)
    log = []
    server, dev = await serve(log, token, key)
    dev.set_max_connection_lifetime(2.5)
    await dev.authenticate(token, key)
    check(await exchange(dev), "V3: exchange after authenticate answered")
    check(len(conns(log)) == 1 and [k for _, k, _ in log] == ["handshake", "data"], "V3: one connection, handshake then data")
    await asyncio.sleep(1.7)
    check(await exchange(dev), "V3: exchange after the lifetime answered")
    last = conns(log)[-1]
    check(len(conns(log)) == 2 and [k for c, k, _ in log if c == last] == ["handshake", "data"],
          "V3: new connection began with a new handshake before data")
    # V3, limit tightened while connected
    dev.set_max_connection_lifetime(1)
    check(await exchange(dev), "V3: exchange right after tightening the limit answered")
    await asyncio.sleep(1.1)
    check(await exchange(dev), "V3: exchange after the tightened limit answered")
    check(disciplined(log, token), "V3: every connection started with a handshake carrying the token")
    dev._lan._disconnect()
    server.close()
    print("demo 3 passed")

asyncio.run(main())
