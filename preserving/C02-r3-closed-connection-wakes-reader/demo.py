"""Demo for change 2 (closed-connection-wakes-reader).

Exercises property C02 (V2 packet codec interoperates) with an independent
implementation of the format, directly on _Packet and through LAN.send on a
loopback V2 unit that closes the connection at awkward moments: right after
answering, instead of answering, and after an unsolicited report.
Exits 0 on the original code and with the change.
"""
import asyncio
import hashlib
import os
import struct
import sys
import threading

from Crypto.Cipher import AES

from msmart.lan import LAN, ProtocolError, _Packet

SIGN_KEY = b"xhdiwjnchekd4d512chdjx5d8e4c394D2D7S"
ENC_KEY = hashlib.md5(SIGN_KEY).digest()


def ref_encode(device_id: int, frame: bytes, stamp: bytes = bytes(8)) -> bytes:
    pad = 16 - len(frame) % 16
    body = AES.new(ENC_KEY, AES.MODE_ECB).encrypt(frame + bytes([pad]) * pad)
    total = 40 + len(body) + 16
    head = struct.pack("<2s2sH2s4s8sQ12s", b"\x5a\x5a", b"\x01\x11", total,
                       b"\x20\x00", bytes(4), stamp, device_id, bytes(12))
    return head + body + hashlib.md5(head + body + SIGN_KEY).digest()


def ref_decode(packet: bytes):
    assert packet[:2] == b"\x5a\x5a", "start marker"
    total, = struct.unpack_from("<H", packet, 4)
    assert total == len(packet), ("length field", total, len(packet))
    assert hashlib.md5(packet[:-16] + SIGN_KEY).digest() == packet[-16:], "sign"
    body = packet[40:-16]
    assert len(body) % 16 == 0 and body
    plain = AES.new(ENC_KEY, AES.MODE_ECB).decrypt(body)
    pad = plain[-1]
    assert 1 <= pad <= 16 and plain[-pad:] == bytes([pad]) * pad, "pkcs7"
    device_id, = struct.unpack_from("<Q", packet, 20)
    return device_id, plain[:-pad]


IDS = [0, 1, 255, 256, 65535, 65536, 2**32 - 1, 2**32, 2**56 - 1, 2**56,
       2**63, 2**64 - 1, 123456, 0x0102030405060708]


def check_codec() -> None:
    for n in range(256):
        frame = os.urandom(n)
        dev = IDS[n % len(IDS)]
        got = ref_decode(_Packet.encode(dev, frame))
        assert got == (dev, frame), (n, dev)
        assert _Packet.decode(ref_encode(dev, frame, os.urandom(8))) == frame, n
    for dev in IDS:
        assert ref_decode(_Packet.encode(dev, b"\xaa" * 17)) == (dev, b"\xaa" * 17)


class Peer(asyncio.Protocol):
    """Loopback V2 unit; the first byte of the frame selects its behaviour.

    N: answer                     C: answer, then close (FIN)
    X: close without answering    A: answer, then abort (RST)
    U: answer, and push an unsolicited report 50 ms later
    """

    def __init__(self, log):
        self.log = log

    def connection_made(self, transport):
        self.transport = transport

    def reply(self, dev, frame):
        self.transport.write(ref_encode(dev, frame, os.urandom(8)))

    def data_received(self, data):
        dev, frame = ref_decode(data)  # asserts interop on the wire
        self.log.append((dev, frame))
        kind = frame[:1]
        if kind == b"X":
            self.transport.close()
            return
        self.reply(dev, b"R" + frame)
        if kind == b"C":
            self.transport.close()
        elif kind == b"A":
            asyncio.get_running_loop().call_later(0.05, self.transport.abort)
        elif kind == b"U":
            asyncio.get_running_loop().call_later(
                0.05, self.reply, dev, b"unsolicited" + frame)


async def check_lan() -> None:
    loop = asyncio.get_running_loop()
    log = []
    server = await loop.create_server(lambda: Peer(log), "127.0.0.1", 0)
    port = server.sockets[0].getsockname()[1]

    for dev in IDS:
        lan = LAN("127.0.0.1", port, dev)
        for pad in (0, 5, 15, 16):
            body = os.urandom(pad)

            # answer-then-close: the answer is returned, the next send reconnects
            for kind in (b"C", b"N", b"A"):
                del log[:]
                assert await lan.send(kind + body) == [b"R" + kind + body]
                assert log == [(dev, kind + body)]
                # let the FIN / RST reach us before the next send
                await asyncio.sleep(0 if kind == b"N" else 0.1)

            # unsolicited report, then answer-then-close: both frames returned
            assert await lan.send(b"U" + body) == [b"RU" + body]
            await asyncio.sleep(0.15)
            out = await lan.send(b"C" + body)
            assert out == [b"unsolicited" + b"U" + body, b"RC" + body], out
            await asyncio.sleep(0.1)

        # closed instead of answered: an error of the documented classes, no
        # frame is invented, and the object recovers on the next send
        del log[:]
        t0 = loop.time()
        try:
            out = await lan.send(b"X" + bytes(7))
        except (ProtocolError, TimeoutError) as e:
            out = e
        assert isinstance(out, Exception), out
        assert loop.time() - t0 < 7
        assert log and set(log) == {(dev, b"X" + bytes(7))}
        assert await lan.send(b"N") == [b"RN"]
        lan._disconnect()
        print("close-without-answer: %s" % type(out).__name__)
        if dev == IDS[2]:
            break  # keep the demo short; the other ids follow below
    for dev in IDS[3:]:
        lan = LAN("127.0.0.1", port, dev)
        assert await lan.send(b"C" + bytes(20)) == [b"RC" + bytes(20)]
        await asyncio.sleep(0.05)
        assert await lan.send(b"C") == [b"RC"]
    server.close()


def main() -> int:
    check_codec()
    asyncio.run(check_lan())
    print("demo2 OK")
    return 0


if __name__ == "__main__":
    sys.exit(main())
