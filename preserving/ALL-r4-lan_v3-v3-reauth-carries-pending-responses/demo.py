"""Demo 4: responses pushed by a V3 device around a new handshake on the same
connection (12 h expiry, explicit authenticate, failed authenticate).

Runs against the original code and against change4.patch; exits 0 on both.
"""
import asyncio
import datetime as dt
import logging
import os
import sys
from hashlib import sha256

from Crypto.Cipher import AES

import msmart.lan as lan_module
from msmart.lan import LAN, AuthenticationError, _Packet

TOKEN = bytes(range(64))
KEY = bytes(range(100, 132))
WRONG_KEY = bytes(range(50, 82))
ERROR_PACKET = b"\x83\x70\x00\x20\x20\x0f" + bytes(34)


def xor(a, b):
    return bytes(x ^ y for x, y in zip(a, b))


def cbc(key):
    return AES.new(key, AES.MODE_CBC, iv=bytes(16))


class FakeV3Device:
    """Minimal independent V3 device on a loopback socket."""

    def __init__(self):
        self.log = []        # "handshake" / "data" in the order received
        self.sent = []       # frames sent to the client, in order
        self.writer = None
        self.session_key = None
        self.tx_count = 0
        self.server = None
        self.reject_next_handshake = False

    async def start(self):
        self.server = await asyncio.start_server(self._client, "127.0.0.1", 0)
        return self.server.sockets[0].getsockname()[1]

    async def stop(self):
        self.server.close()
        await self.server.wait_closed()

    def encrypted(self, payload, *, key=None, ptype=0x3):
        body = self.tx_count.to_bytes(2, "big") + payload
        self.tx_count = (self.tx_count + 1) & 0xFFFF
        pad = -len(body) % 16
        body += os.urandom(pad)
        header = b"\x83\x70" + (len(body) - 2 + 32).to_bytes(2, "big") + \
            b"\x20" + bytes([pad << 4 | ptype])
        return header + cbc(key or self.session_key).encrypt(body) + sha256(header + body).digest()

    async def push(self, frame):
        """Unsolicited frame under the current session key."""
        self.sent.append(frame)
        self.writer.write(self.encrypted(_Packet.encode(7, frame)))
        await self.writer.drain()

    async def push_raw(self, data):
        self.writer.write(data)
        await self.writer.drain()

    async def _client(self, reader, writer):
        self.writer = writer
        try:
            while True:
                header = await reader.readexactly(6)
                assert header[:2] == b"\x83\x70" and header[4] == 0x20
                rest = await reader.readexactly(int.from_bytes(header[2:4], "big") + 2)
                ptype = header[5] & 0xF
                if ptype == 0x0:
                    self.log.append("handshake")
                    assert rest[2:] == TOKEN, "handshake must carry the configured token"
                    if self.reject_next_handshake:
                        # Refused: error packet, the running session stays as it is
                        self.reject_next_handshake = False
                        writer.write(ERROR_PACKET)
                        await writer.drain()
                        continue
                    nonce = os.urandom(32)
                    self.session_key = xor(nonce, KEY)
                    payload = cbc(KEY).encrypt(nonce) + sha256(nonce).digest()
                    writer.write(b"\x83\x70" + len(payload).to_bytes(2, "big") + b"\x20\x01" +
                                 bytes(2) + payload)
                else:
                    assert ptype == 0x6, ptype
                    plain = cbc(self.session_key).decrypt(rest[:-32])
                    assert sha256(header + plain).digest() == rest[-32:], "wrong session key"
                    self.log.append("data")
                    frame = _Packet.decode(plain[2:len(plain) - (header[5] >> 4)])
                    self.sent.append(b"ack:" + frame)
                    writer.write(self.encrypted(_Packet.encode(7, b"ack:" + frame)))
                await writer.drain()
        except (asyncio.IncompleteReadError, ConnectionError):
            pass
        finally:
            writer.close()


class Clock(dt.datetime):
    offset = dt.timedelta(0)

    @classmethod
    def now(cls, tz=None):
        return dt.datetime.now(tz) + cls.offset


def is_subsequence(small, big):
    it = iter(big)
    return all(any(x == y for y in it) for x in small)


async def main():
    device = FakeV3Device()
    port = await device.start()
    lan = LAN("127.0.0.1", port, 7)
    lan_module.datetime = Clock
    delivered = []

    async def exchange(frame):
        responses = await lan.send(frame)
        assert b"ack:" + frame in responses, (frame, responses)
        # The answer to the request is the newest thing delivered
        assert responses[-1] == b"ack:" + frame, responses
        delivered.extend(responses)
        return responses

    await lan.authenticate(TOKEN, KEY)
    await exchange(b"one")

    # Unsolicited report between two exchanges of one session: delivered with the next
    await device.push(b"report-1")
    await asyncio.sleep(0.05)
    assert (await exchange(b"two"))[0] == b"report-1"

    # Unsolicited reports, then the 12 h authentication lifetime elapses
    await device.push(b"report-2")
    await device.push(b"report-3")
    await asyncio.sleep(0.05)
    Clock.offset += dt.timedelta(hours=12, minutes=1)
    count = len(device.log)
    responses = await exchange(b"three")
    assert device.log[count:] == ["handshake", "data"], device.log[count:]
    print("after expiry the exchange returned:", responses)

    # Things that can not be used, then an explicit authenticate on the open connection
    await device.push_raw(device.encrypted(_Packet.encode(7, b"x"), key=WRONG_KEY))
    await device.push_raw(ERROR_PACKET)
    await device.push_raw(device.encrypted(b"not a packet at all"))
    await device.push(b"report-4")
    await asyncio.sleep(0.05)
    count = len(device.log)
    await lan.authenticate(TOKEN, KEY)
    assert device.log[count:] == ["handshake"]
    responses = await exchange(b"four")
    print("after explicit authenticate the exchange returned:", responses)

    # Authenticate refused by the device on the open connection, then the next exchange
    await device.push(b"report-5")
    await asyncio.sleep(0.05)
    count = len(device.log)
    device.reject_next_handshake = True
    try:
        await lan.authenticate(TOKEN, WRONG_KEY)
    except AuthenticationError:
        pass
    else:
        raise AssertionError("refused handshake accepted")
    assert device.log[count:] == ["handshake"], "only a handshake request may be sent"
    assert lan.key == KEY and lan.token == TOKEN
    responses = await exchange(b"five")
    print("after failed authenticate the exchange returned:", responses)

    # Nothing invented, nothing twice, nothing out of order
    assert len(set(delivered)) == len(delivered)
    assert is_subsequence(delivered, device.sent), (delivered, device.sent)

    lan._disconnect()
    await device.stop()
    lan_module.datetime = dt.datetime
    print(f"{len(delivered)} of {len(device.sent)} frames sent by the device were delivered, in order")


if __name__ == "__main__":
    logging.getLogger("msmart").setLevel(logging.ERROR)
    asyncio.run(main())
    sys.exit(0)
