import asyncio
import hashlib
import logging
import os
import sys
import time

from msmart.lan import LAN, ProtocolError, Security, _Packet

TOKEN = bytes(range(64))
KEY = bytes(range(100, 132))


def _xor(a, b):
    return bytes(x ^ y for x, y in zip(a, b))


class FakeDevice:
    """Minimal loopback Midea device speaking V2 or V3.

    `plan(n, frame)` is called for the n-th data request (1-based, per device) and
    returns a list of (delay, frame) answers (possibly empty = stay silent).
    """

    def __init__(self, version=2, plan=None, close_after=None):
        self.version = version
        self.plan = plan or (lambda n, frame: [(0, b"\xaa\x01ok" + bytes([n & 0xFF]))])
        self.close_after = close_after
        self.server = None
        self.port = None
        self.connections = []   # per connection: list of events
        self.requests = 0
        self.open = 0
        self.max_open = 0
        self.log = []           # (time, connection index, event)
        self.writers = []

    async def start(self, port=0):
        self.server = await asyncio.start_server(self._handle, "127.0.0.1", port)
        self.port = self.server.sockets[0].getsockname()[1]
        return self

    async def stop(self):
        self.server.close()
        for w in self.writers:
            w.close()
        await asyncio.sleep(0.05)

    def _note(self, idx, event):
        self.log.append((time.monotonic(), idx, event))
        self.connections[idx].append(event)

    async def _handle(self, reader, writer):
        idx = len(self.connections)
        self.connections.append([])
        self.writers.append(writer)
        self.open += 1
        self.max_open = max(self.max_open, self.open)
        self._note(idx, "open")
        session = {"key": None, "count": 0}
        try:
            while True:
                if self.version == 3:
                    head = await reader.readexactly(6)
                    assert head[:2] == b"\x83\x70", head
                    size = int.from_bytes(head[2:4], "big")
                    rest = await reader.readexactly(size + 2)
                    await self._on_v3(idx, session, head, rest, writer)
                else:
                    head = await reader.readexactly(6)
                    assert head[:2] == b"\x5a\x5a", head
                    size = int.from_bytes(head[4:6], "little")
                    rest = await reader.readexactly(size - 6)
                    frame = _Packet.decode(head + rest)
                    await self._on_frame(idx, frame, lambda f: writer.write(
                        _Packet.encode(1234, f)), writer)
        except (asyncio.IncompleteReadError, ConnectionError):
            pass
        finally:
            self.open -= 1
            self._note(idx, "closed")
            writer.close()

    async def _on_frame(self, idx, frame, reply, writer):
        self.requests += 1
        n = self.requests
        self._note(idx, ("data", frame))
        for delay, answer in self.plan(n, frame):
            if delay:
                await asyncio.sleep(delay)
            reply(answer)
        await writer.drain()
        if self.close_after and n in self.close_after:
            self._note(idx, "server-close")
            writer.close()

    async def _on_v3(self, idx, session, head, rest, writer):
        ptype = head[5] & 0xF
        if ptype == 0x0:
            counter = int.from_bytes(rest[:2], "big")
            token = rest[2:]
            self._note(idx, ("handshake", counter, token))
            nonce = os.urandom(32)
            session["key"] = _xor(nonce, KEY)
            payload = Security.encrypt_aes_cbc(KEY, nonce) + hashlib.sha256(nonce).digest()
            body = bytes(2) + payload
            writer.write(b"\x83\x70" + len(payload).to_bytes(2, "big") + b"\x20\x01" + body)
            await writer.drain()
        elif ptype == 0x6:
            assert session["key"] is not None, "data before handshake"
            enc, tag = rest[:-32], rest[-32:]
            plain = Security.decrypt_aes_cbc(session["key"], enc)
            assert hashlib.sha256(head + plain).digest() == tag
            pad = head[5] >> 4
            counter = int.from_bytes(plain[:2], "big")
            inner = plain[2:len(plain) - pad]
            frame = _Packet.decode(inner)
            self._note(idx, ("counter", counter))

            def reply(answer):
                data = _Packet.encode(1234, answer)
                session["count"] += 1
                rem = (len(data) + 2) % 16
                p = 16 - rem if rem else 0
                h = b"\x83\x70" + (len(data) + p + 32).to_bytes(2, "big") + b"\x20" + bytes([p << 4 | 0x3])
                pl = session["count"].to_bytes(2, "big") + data + bytes(p)
                writer.write(h + Security.encrypt_aes_cbc(session["key"], pl) + hashlib.sha256(h + pl).digest())
            await self._on_frame(idx, frame, reply, writer)
        else:
            raise AssertionError(f"unexpected type {ptype}")

    def data_frames(self, idx=None):
        conns = self.connections if idx is None else [self.connections[idx]]
        return [e[1] for c in conns for e in c if isinstance(e, tuple) and e[0] == "data"]


def check(cond, what):
    print(("ok   " if cond else "FAIL ") + what)
    if not cond:
        sys.exit(1)


# ---------------------------------------------------------------- demo 2: reusing / replacing connections
def v3_discipline(dev):
    """Per connection: handshake with the configured token first, counters +1 per packet."""
    for events in dev.connections:
        events = [e for e in events if isinstance(e, tuple)]
        if not events:
            continue
        if events[0][0] != "handshake" or events[0][2] != TOKEN:
            return False
        expect = events[0][1]
        for e in events:
            counter = e[1] if e[0] in ("handshake", "counter") else None
            if counter is None:
                continue
            if counter != expect:
                return False
            expect = (expect + 1) & 0xFFF
    return True


async def exchange(lan, frame, retries=2):
    """Returns (responses or None, seconds)."""
    t0 = time.monotonic()
    try:
        return await lan.send(frame, retries=retries), time.monotonic() - t0
    except (TimeoutError, ProtocolError):
        return None, time.monotonic() - t0


async def main():
    # 1. exchanges in quick succession share one connection (V2 and V3)
    for version in (2, 3):
        dev = await FakeDevice(version).start()
        lan = LAN("127.0.0.1", dev.port, 1234)
        lan._token, lan._key, lan._protocol_version = TOKEN, KEY, version
        for i in range(5):
            res, _ = await exchange(lan, b"\xaa\x10" + bytes([i]))
            check(res == [b"\xaa\x01ok" + bytes([i + 1])], f"V{version} exchange {i + 1} answered")
        check(len(dev.connections) == 1, f"V{version}: five exchanges, one connection")
        check(dev.data_frames() == [b"\xaa\x10" + bytes([i]) for i in range(5)], "each request transmitted once, in order")
        if version == 3:
            check(v3_discipline(dev), "V3: handshake first, counters consecutive")
        await dev.stop()

    # 2. device answers and hangs up at once; the following exchange is started without any pause.
    #    It may fail (request written to the dead connection) but then the one after it must succeed;
    #    never is a request transmitted more than `retries` times.
    for version in (2, 3):
        dev = await FakeDevice(version, close_after={1}).start()
        lan = LAN("127.0.0.1", dev.port, 1234)
        lan._token, lan._key, lan._protocol_version = TOKEN, KEY, version
        res, _ = await exchange(lan, b"\xaa\x10A")
        check(res == [b"\xaa\x01ok\x01"], f"V{version}: answered before the hang-up")
        res, took = await exchange(lan, b"\xaa\x10B")
        print(f"     exchange right after the hang-up: {'answered' if res else 'failed'} in {took:.2f} s")
        if res is None:
            res, took = await exchange(lan, b"\xaa\x10B")
        check(res is not None and len(res) == 1, "recovered without user intervention")
        check(1 <= dev.data_frames().count(b"\xaa\x10B") <= 4, "request B transmitted within its budget")
        check(len(dev.connections) >= 2 and b"\xaa\x10B" in dev.data_frames(len(dev.connections) - 1), "B was answered on a new connection")
        if version == 3:
            check(v3_discipline(dev), "V3: every connection starts with a handshake, counters consecutive")
        await dev.stop()

    # 3. device hangs up while the client is idle; client resumes later
    dev = await FakeDevice(3).start()
    lan = LAN("127.0.0.1", dev.port, 1234)
    lan._token, lan._key, lan._protocol_version = TOKEN, KEY, 3
    res, _ = await exchange(lan, b"\xaa\x10A")
    dev.writers[-1].close()
    await asyncio.sleep(0.2)
    res, took = await exchange(lan, b"\xaa\x10B")
    check(res is not None and took < 1.9, f"new connection and handshake, no read timeout burnt ({took:.2f} s)")
    check(len(dev.connections) == 2 and v3_discipline(dev), "second connection starts with a handshake")

    # 4. a long quiet period (only where the library lets us shorten its idea of 'long'):
    #    whatever connection is used, the exchange is answered and the V3 rules hold
    if hasattr(lan, "max_idle_time"):
        lan.max_idle_time = 0.3
    await asyncio.sleep(0.6)
    res, took = await exchange(lan, b"\xaa\x10C")
    check(res is not None and len(res) == 1, "exchange after a quiet period answered")
    check(v3_discipline(dev), "V3 rules hold on every connection")
    check(dev.data_frames().count(b"\xaa\x10C") == 1, "request transmitted once")
    res, took = await exchange(lan, b"\xaa\x10D")
    check(res is not None and took < 0.5, "and the connection is reused right after")
    print(f"     connections used in total: {len(dev.connections)}")
    await dev.stop()

    # 5. max connection lifetime still honoured: new connection, handshake first
    dev = await FakeDevice(3).start()
    lan = LAN("127.0.0.1", dev.port, 1234)
    lan._token, lan._key, lan._protocol_version = TOKEN, KEY, 3
    lan.max_connection_lifetime = 1
    await exchange(lan, b"\xaa\x10A")
    await asyncio.sleep(0.2)  # the handshake pause has used up the lifetime
    res, _ = await exchange(lan, b"\xaa\x10B")
    check(res is not None and len(dev.connections) == 2 and v3_discipline(dev), "lifetime elapsed -> new connection, handshake, then data")
    await dev.stop()
    print("demo 2 done")


logging.basicConfig(level=logging.CRITICAL)
asyncio.run(main())
