"""Discovery protocol reference: the probe real devices answer, and V2 / V3 discovery replies.

The probe is a byte-exact private copy (not imported from msmart): a V2 packet with message type 01 11,
magic 92 00, all-zero header filler and the encrypted payload FF 00.
"""
from __future__ import annotations

from . import v2
from .prim import RefError, md5

GOLDEN_PROBE = bytes.fromhex(
    "5a5a01114800920000000000000000000000000000000000000000000000000000000000000000007f75bd6b3e4f8b76"
    "2e849c6e578d6590036e9d4342a50f1f569eb8ec918e92e5")
PROBE_PLAINTEXT = b"\xff\x00"
PORTS = (6445, 20086)
BROADCAST = "255.255.255.255"


def probe_acceptable(data: bytes) -> tuple[bool, str]:
    """Would a real device answer this datagram?  (header filler such as a timestamp may differ)"""
    d = bytes(data)
    if len(d) < 56 or d[0:2] != b"\x5a\x5a":
        return False, "not a 5A5A packet"
    if int.from_bytes(d[4:6], "little") != len(d):
        return False, "length field does not match datagram length"
    if d[6:8] != b"\x92\x00":
        return False, "message type bytes 6-7 are not 92 00"
    if v2.sign(d[:-16]) != d[-16:]:
        return False, "keyed MD5 invalid"
    try:
        plain = v2.decrypt_payload(d[40:-16])
    except RefError as e:
        return False, f"payload does not decrypt: {e}"
    if plain != PROBE_PLAINTEXT:
        return False, "payload is not the discovery request"
    return True, "ok"


assert probe_acceptable(GOLDEN_PROBE)[0]


def ip_bytes_reversed(ip: str) -> bytes:
    return bytes(reversed([int(x) for x in ip.split(".")]))


def build_payload(ip: str, port: int, sn: bytes, name: bytes, tail: bytes = b"") -> bytes:
    """Plaintext of a discovery reply: ip (reversed) | port LE (4) | sn (32) | len | name | tail."""
    sn = bytes(sn)
    if len(sn) != 32:
        raise RefError("serial number is 32 bytes")
    return ip_bytes_reversed(ip) + (port & 0xFFFFFFFF).to_bytes(4, "little") + sn + bytes([len(name) & 0xFF]) + bytes(name) + bytes(tail)


def build_reply(version: int, device_id: int, plaintext: bytes, *, ciphertext: bytes | None = None, free: bytes | None = None) -> bytes:
    """Wrap a reply payload as a V2 (5A5A) or V3 (8370-wrapped) discovery response.

    ``free`` (26 bytes) fills the header fields a discovery client does not read: bytes 8..20 (message id, timestamp), 26..28 (the two
    bytes after the 48-bit device id) and 28..40."""
    ct = v2.encrypt_payload(plaintext) if ciphertext is None else bytes(ciphertext)
    total = 40 + len(ct) + 16
    free = bytes(26) if free is None else bytes(free)
    hdr = b"\x5a\x5a\x01\x11" + (total & 0xFFFF).to_bytes(2, "little") + b"\x7a\x80" + free[:12]
    hdr += (device_id & (2 ** 48 - 1)).to_bytes(6, "little") + free[12:14] + free[14:26]
    body = hdr + ct
    inner = body + v2.sign(body)
    if version == 2:
        return inner
    outer = b"\x83\x70" + (len(inner) + 16).to_bytes(2, "big") + b"\x20\x0f\x00\x00" + inner
    return outer + md5(outer)       # 16-byte trailer (content not relied upon)
