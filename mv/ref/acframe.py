"""Appliance frame layer (AA len AC ... type | body | checksum), independent of msmart.

CRC-8 is computed bit by bit (Dallas/Maxim: poly x^8+x^5+x^4+1, reflected 0x8C,
init 0) - deliberately *not* with a lookup table.
"""
from __future__ import annotations

from .prim import RefError

FT_CONTROL, FT_QUERY, FT_REPORT, FT_NOTIFY, FT_ABNORMAL = 0x02, 0x03, 0x04, 0x05, 0x06


def crc8(data: bytes) -> int:
    crc = 0
    for b in data:
        crc ^= b
        for _ in range(8):
            crc = (crc >> 1) ^ 0x8C if crc & 1 else crc >> 1
    return crc & 0xFF


def checksum(data: bytes) -> int:
    return (-sum(data)) & 0xFF


def build(body: bytes, frame_type: int = FT_QUERY, *, appliance: int = 0xAC, check: str = "crc",
          proto: int = 0, header_fill: bytes = bytes(5)) -> bytes:
    """Build a frame around ``body`` (body excludes the trailing check byte).

    check = 'crc' | 'sum' | 'none' | int (explicit check byte)
    """
    body = bytes(body)
    if check == "crc":
        body_c = body + bytes([crc8(body)])
    elif check == "sum":
        body_c = body + bytes([checksum(body)])
    elif check == "none":
        body_c = body
    else:
        body_c = body + bytes([int(check) & 0xFF])
    n = 10 + len(body_c)
    hdr = bytes([0xAA, n & 0xFF, appliance]) + bytes(header_fill)[:5] + bytes([proto, frame_type])
    f = hdr + body_c
    return f + bytes([checksum(f[1:])])


def fix_outer(frame: bytes) -> bytes:
    """Recompute the outer checksum of a frame."""
    f = bytes(frame)
    return f[:-1] + bytes([checksum(f[1:-1])])


def outer_ok(frame: bytes) -> bool:
    f = bytes(frame)
    return len(f) >= 2 and checksum(f[1:-1]) == f[-1]


def body_check_ok(frame: bytes) -> bool:
    f = bytes(frame)
    b = f[10:-1]
    if len(b) < 1:
        return False
    return crc8(b[:-1]) == b[-1] or checksum(b[:-1]) == b[-1]


def parse_command(frame: bytes) -> dict:
    """What a spec-conforming device parser accepts.  Raises RefError otherwise."""
    f = bytes(frame)
    if len(f) < 13:
        raise RefError("frame too short")
    if f[0] != 0xAA:
        raise RefError("bad start byte")
    if f[1] != len(f) - 1:
        raise RefError(f"length byte {f[1]} != {len(f) - 1}")
    if f[2] != 0xAC:
        raise RefError("appliance type not 0xAC")
    if checksum(f[1:-1]) != f[-1]:
        raise RefError("outer checksum")
    body = f[10:-1]          # includes message id and crc
    if crc8(body[:-1]) != body[-1]:
        raise RefError("body crc")
    return {"frame_type": f[9], "body": body[:-2], "msg_id": body[-2], "proto": f[8]}


def build_command(body: bytes, frame_type: int = FT_QUERY, msg_id: int = 1) -> bytes:
    """A command frame as a conforming controller would send it (body + message id + CRC-8)."""
    return build(bytes(body) + bytes([msg_id & 0xFF]), frame_type, check="crc")


def state_query(msg_id: int = 1) -> bytes:
    return build_command(bytes([0x41, 0x81, 0x00, 0xFF, 0x03, 0xFF, 0x00, 0x02]) + bytes(12) + b"\x03", FT_QUERY, msg_id)
