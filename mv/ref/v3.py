"""Independent implementation of the Midea V3 (8370) LAN framing and session crypto.

Packet:  83 70 | size(2, BE) | 20 | pad<<4|type | counter(2, BE) | body | [sha256 tag]
         total length = size + 8
  type 0 handshake request   body = 64-byte token                      size = 64
  type 1 handshake response  body = AES-CBC_K(nonce) || SHA256(nonce)   size = 64
  type 6 encrypted request   AES-CBC_S(counter||payload||pad) || SHA256(header||counter||payload||pad)
  type 3 encrypted response  same layout;  size = len(payload)+pad+32
  type F error
Session key S = nonce XOR K.  CBC with a zero IV.
"""
from __future__ import annotations

from .prim import RefError, cbc_decrypt, cbc_encrypt, sha256, xor

MARK = b"\x83\x70"
T_HS_REQ, T_HS_RESP, T_ENC_RESP, T_ENC_REQ, T_ERROR = 0x0, 0x1, 0x3, 0x6, 0xF


def header(size: int, pad: int, ptype: int, magic: int = 0x20) -> bytes:
    return MARK + (size & 0xFFFF).to_bytes(2, "big") + bytes([magic & 0xFF, ((pad & 0xF) << 4) | (ptype & 0xF)])


def handshake_proof(key: bytes, nonce: bytes) -> bytes:
    """64-byte reply body a genuine device computes for a 32-byte nonce."""
    return cbc_encrypt(key, nonce) + sha256(nonce)


def session_key(key: bytes, nonce: bytes) -> bytes:
    return xor(nonce, key)


def build_handshake_response(body: bytes, counter: int = 0, ptype: int = T_HS_RESP) -> bytes:
    return header(len(body), 0, ptype) + (counter & 0xFFFF).to_bytes(2, "big") + bytes(body)


def build_error(counter: int = 0, text: bytes = b"ERROR") -> bytes:
    return header(len(text), 0, T_ERROR) + (counter & 0xFFFF).to_bytes(2, "big") + bytes(text)


def pad_len(payload_len: int) -> int:
    return (-(payload_len + 2)) % 16


def build_encrypted(skey: bytes, payload: bytes, counter: int, ptype: int = T_ENC_RESP,
                    pad_bytes: bytes | None = None) -> bytes:
    pad = pad_len(len(payload))
    if pad_bytes is None:
        pad_bytes = bytes((7 * i + 3) & 0xFF for i in range(pad))
    if len(pad_bytes) != pad:
        raise RefError("wrong pad length supplied")
    size = len(payload) + pad + 32
    hdr = header(size, pad, ptype)
    plain = (counter & 0xFFFF).to_bytes(2, "big") + bytes(payload) + bytes(pad_bytes)
    return hdr + cbc_encrypt(skey, plain) + sha256(hdr + plain)


def parse_encrypted(skey: bytes, packet: bytes, expect_type: int | None = T_ENC_REQ) -> dict:
    p = bytes(packet)
    if len(p) < 6 + 16 + 32:
        raise RefError("encrypted packet too short")
    if p[0:2] != MARK:
        raise RefError("bad marker")
    if p[4] != 0x20:
        raise RefError("bad magic byte")
    size = int.from_bytes(p[2:4], "big")
    if size + 8 != len(p):
        raise RefError(f"size field {size}+8 != {len(p)}")
    ptype = p[5] & 0xF
    pad = p[5] >> 4
    if expect_type is not None and ptype != expect_type:
        raise RefError(f"unexpected type {ptype}")
    ct = p[6:-32]
    if len(ct) % 16:
        raise RefError("ciphertext not block aligned")
    plain = cbc_decrypt(skey, ct)
    if sha256(p[:6] + plain) != p[-32:]:
        raise RefError("tag mismatch")
    if pad > len(plain) - 2:
        raise RefError("pad larger than content")
    payload = plain[2:len(plain) - pad]
    if size != len(payload) + pad + 32:
        raise RefError("size/pad inconsistent")
    if (len(payload) + 2 + pad) % 16:
        raise RefError("alignment inconsistent")
    if pad != pad_len(len(payload)):
        raise RefError(f"non-minimal pad {pad} for payload {len(payload)}")
    return {"payload": payload, "counter": int.from_bytes(plain[0:2], "big"), "type": ptype, "pad": pad}


def parse_handshake_request(packet: bytes) -> dict:
    p = bytes(packet)
    if len(p) < 8 or p[0:2] != MARK:
        raise RefError("bad marker")
    size = int.from_bytes(p[2:4], "big")
    if size + 8 != len(p):
        raise RefError("size mismatch")
    if p[4] != 0x20:
        raise RefError("bad magic")
    if p[5] != T_HS_REQ:
        raise RefError("not a handshake request")
    return {"token": p[8:], "counter": int.from_bytes(p[6:8], "big")}


def split_stream(buf: bytes):
    """Device-side framing of the client's byte stream."""
    out = []
    b = bytes(buf)
    while True:
        i = b.find(MARK)
        if i < 0:
            return out, b""
        b = b[i:]
        if len(b) < 6:
            return out, b
        n = int.from_bytes(b[2:4], "big") + 8
        if len(b) < n:
            return out, b
        out.append(b[:n])
        b = b[n:]
