"""Independent implementation of the Midea V2 LAN packet format.

Layout (from the packet overview in the protocol notes):
  0..1   start marker 5A 5A
  2..3   message type (01 11 for commands)
  4..5   total packet length, little endian
  6..7   magic bytes (usually 20 00)
  8..11  message id
  12..19 timestamp
  20..27 device id, little endian
  28..39 reserved
  40..n-17  AES-128-ECB / PKCS7 payload under md5(SIGN_KEY)
  n-16.. keyed MD5:  md5(packet[:-16] + SIGN_KEY)
"""
from __future__ import annotations

from .prim import (RefError, ecb_decrypt_blocks, ecb_encrypt_blocks, md5,
                   pkcs7_pad, pkcs7_unpad)

# private copy of the fixed vendor key (not imported from msmart)
SIGN_KEY = b"xhdiwjnchekd4d512chdjx5d8e4c394D2D7S"
ENC_KEY = md5(SIGN_KEY)


def encrypt_payload(frame: bytes) -> bytes:
    return ecb_encrypt_blocks(ENC_KEY, pkcs7_pad(frame))


def decrypt_payload(ct: bytes) -> bytes:
    return pkcs7_unpad(ecb_decrypt_blocks(ENC_KEY, ct))


def sign(data: bytes) -> bytes:
    return md5(bytes(data) + SIGN_KEY)


def build(frame: bytes, device_id: int = 0, *, msg_type: bytes = b"\x01\x11",
          magic: bytes = b"\x20\x00", msg_id: bytes = bytes(4),
          timestamp: bytes = bytes(8), reserved: bytes = bytes(12),
          ciphertext: bytes | None = None) -> bytes:
    """Build an authentic packet.  ``ciphertext`` overrides the encrypted payload
    (used to produce *correctly signed garbage*)."""
    ct = encrypt_payload(frame) if ciphertext is None else bytes(ciphertext)
    total = 40 + len(ct) + 16
    hdr = b"\x5a\x5a" + bytes(msg_type) + (total & 0xFFFF).to_bytes(2, "little") + bytes(magic)
    hdr += bytes(msg_id) + bytes(timestamp) + (device_id & (2 ** 64 - 1)).to_bytes(8, "little") + bytes(reserved)
    assert len(hdr) == 40
    body = hdr + ct
    return body + sign(body)


def parse(packet: bytes) -> dict:
    """Strict parse.  Raises RefError for anything an independent receiver rejects."""
    p = bytes(packet)
    if len(p) < 56:
        raise RefError("packet shorter than header+signature")
    if p[0:2] != b"\x5a\x5a":
        raise RefError("bad start marker")
    length = int.from_bytes(p[4:6], "little")
    if length != len(p):
        raise RefError(f"length field {length} != packet size {len(p)}")
    if sign(p[:-16]) != p[-16:]:
        raise RefError("signature mismatch")
    ct = p[40:-16]
    if len(ct) % 16 or not ct:
        raise RefError("payload not block aligned")
    frame = decrypt_payload(ct)
    return {
        "frame": frame,
        "device_id": int.from_bytes(p[20:28], "little"),
        "msg_type": p[2:4],
        "magic": p[6:8],
        "msg_id": p[8:12],
        "timestamp": p[12:20],
        "reserved": p[28:40],
        "length": length,
    }


def is_authentic(packet: bytes) -> bool:
    try:
        parse(packet)
        return True
    except RefError:
        return False


def split_stream(buf: bytes):
    """Device-side reassembly: yield complete packets from a byte stream, return rest."""
    out = []
    b = bytes(buf)
    while len(b) >= 6 and b[0:2] == b"\x5a\x5a":
        n = int.from_bytes(b[4:6], "little")
        if n < 56 or len(b) < n:
            break
        out.append(b[:n])
        b = b[n:]
    return out, b
