"""Reference cryptographic primitives and padding (independent of msmart).

The AES *block* operation is taken from pycryptodome in raw ECB mode for speed;
CBC chaining and PKCS7 are implemented here.  ``selftest()`` cross-checks the
block primitive against the pure-Python AES below and (when present) the
``openssl`` CLI, and MD5/SHA-256 against ``openssl dgst``.
"""
from __future__ import annotations

import hashlib
import os
import shutil
import subprocess

from Crypto.Cipher import AES as _AES


class RefError(Exception):
    """The reference implementation rejects the input."""


def md5(data: bytes) -> bytes:
    return hashlib.md5(bytes(data)).digest()


def sha256(data: bytes) -> bytes:
    return hashlib.sha256(bytes(data)).digest()


def xor(a: bytes, b: bytes) -> bytes:
    if len(a) != len(b):
        raise RefError("xor length mismatch")
    return bytes(x ^ y for x, y in zip(a, b))


def ecb_encrypt_blocks(key: bytes, data: bytes) -> bytes:
    if len(data) % 16:
        raise RefError("ECB input not block aligned")
    if not data:
        return b""
    return _AES.new(bytes(key), _AES.MODE_ECB).encrypt(bytes(data))


def ecb_decrypt_blocks(key: bytes, data: bytes) -> bytes:
    if len(data) % 16:
        raise RefError("ECB input not block aligned")
    if not data:
        return b""
    return _AES.new(bytes(key), _AES.MODE_ECB).decrypt(bytes(data))


def cbc_encrypt(key: bytes, data: bytes, iv: bytes = bytes(16)) -> bytes:
    if len(data) % 16:
        raise RefError("CBC input not block aligned")
    ecb = _AES.new(bytes(key), _AES.MODE_ECB)
    out = bytearray()
    prev = bytes(iv)
    for i in range(0, len(data), 16):
        blk = ecb.encrypt(bytes(x ^ y for x, y in zip(data[i:i + 16], prev)))
        out += blk
        prev = blk
    return bytes(out)


def cbc_decrypt(key: bytes, data: bytes, iv: bytes = bytes(16)) -> bytes:
    if len(data) % 16:
        raise RefError("CBC input not block aligned")
    if not data:
        return b""
    raw = _AES.new(bytes(key), _AES.MODE_ECB).decrypt(bytes(data))
    chain = bytes(iv) + bytes(data[:-16])
    return bytes(x ^ y for x, y in zip(raw, chain))


def pkcs7_pad(data: bytes, block: int = 16) -> bytes:
    n = block - (len(data) % block)
    return bytes(data) + bytes([n]) * n


def pkcs7_unpad(data: bytes, block: int = 16) -> bytes:
    if not data or len(data) % block:
        raise RefError("bad padded length")
    n = data[-1]
    if n < 1 or n > block or data[-n:] != bytes([n]) * n:
        raise RefError("bad PKCS7 padding")
    return bytes(data[:-n])


# ---------------------------------------------------------------------------
# Pure-Python AES (encrypt/decrypt one block) used only to cross-check.

_SBOX = None
_INV = None


def _init_tables() -> None:
    global _SBOX, _INV
    if _SBOX is not None:
        return
    # generate S-box from the multiplicative inverse in GF(2^8)
    p = q = 1
    sbox = [0] * 256
    while True:
        p = p ^ ((p << 1) & 0xFF) ^ (0x1B if p & 0x80 else 0)
        q ^= q << 1
        q ^= q << 2
        q ^= q << 4
        q &= 0xFF
        if q & 0x80:
            q ^= 0x09
        x = q ^ ((q << 1) | (q >> 7)) & 0xFF ^ ((q << 2) | (q >> 6)) & 0xFF ^ ((q << 3) | (q >> 5)) & 0xFF ^ ((q << 4) | (q >> 4)) & 0xFF
        sbox[p] = (x ^ 0x63) & 0xFF
        if p == 1:
            break
    sbox[0] = 0x63
    _SBOX = sbox
    _INV = [0] * 256
    for i, v in enumerate(sbox):
        _INV[v] = i


def _xt(a: int) -> int:
    return ((a << 1) ^ 0x1B) & 0xFF if a & 0x80 else a << 1


def _mul(a: int, b: int) -> int:
    r = 0
    while b:
        if b & 1:
            r ^= a
        a = _xt(a)
        b >>= 1
    return r


def _expand(key: bytes):
    _init_tables()
    nk = len(key) // 4
    nr = nk + 6
    w = [list(key[4 * i:4 * i + 4]) for i in range(nk)]
    rcon = 1
    for i in range(nk, 4 * (nr + 1)):
        t = list(w[i - 1])
        if i % nk == 0:
            t = t[1:] + t[:1]
            t = [_SBOX[b] for b in t]
            t[0] ^= rcon
            rcon = _xt(rcon)
        elif nk > 6 and i % nk == 4:
            t = [_SBOX[b] for b in t]
        w.append([a ^ b for a, b in zip(w[i - nk], t)])
    return [sum(w[4 * r:4 * r + 4], []) for r in range(nr + 1)], nr


def pure_aes_encrypt_block(key: bytes, block: bytes) -> bytes:
    rk, nr = _expand(bytes(key))
    s = [b ^ k for b, k in zip(block, rk[0])]
    for r in range(1, nr + 1):
        s = [_SBOX[b] for b in s]
        s = [s[(i + 4 * (i % 4)) % 16] for i in range(16)]  # shift rows (column-major)
        if r != nr:
            t = []
            for c in range(4):
                col = s[4 * c:4 * c + 4]
                t += [
                    _mul(col[0], 2) ^ _mul(col[1], 3) ^ col[2] ^ col[3],
                    col[0] ^ _mul(col[1], 2) ^ _mul(col[2], 3) ^ col[3],
                    col[0] ^ col[1] ^ _mul(col[2], 2) ^ _mul(col[3], 3),
                    _mul(col[0], 3) ^ col[1] ^ col[2] ^ _mul(col[3], 2),
                ]
            s = t
        s = [b ^ k for b, k in zip(s, rk[r])]
    return bytes(s)


def pure_aes_decrypt_block(key: bytes, block: bytes) -> bytes:
    rk, nr = _expand(bytes(key))
    s = [b ^ k for b, k in zip(block, rk[nr])]
    for r in range(nr - 1, -1, -1):
        s = [s[(i - 4 * (i % 4)) % 16] for i in range(16)]  # inverse shift rows
        s = [_INV[b] for b in s]
        s = [b ^ k for b, k in zip(s, rk[r])]
        if r != 0:
            t = []
            for c in range(4):
                col = s[4 * c:4 * c + 4]
                t += [
                    _mul(col[0], 14) ^ _mul(col[1], 11) ^ _mul(col[2], 13) ^ _mul(col[3], 9),
                    _mul(col[0], 9) ^ _mul(col[1], 14) ^ _mul(col[2], 11) ^ _mul(col[3], 13),
                    _mul(col[0], 13) ^ _mul(col[1], 9) ^ _mul(col[2], 14) ^ _mul(col[3], 11),
                    _mul(col[0], 11) ^ _mul(col[1], 13) ^ _mul(col[2], 9) ^ _mul(col[3], 14),
                ]
            s = t
    return bytes(s)


def selftest(verbose: bool = False) -> dict:
    """Cross-check primitives.  Returns a dict of counts; raises on mismatch."""
    import random
    rnd = random.Random(1234)
    out = {"aes_vectors": 0, "openssl_vectors": 0, "fips197": 0}
    # FIPS-197 appendix C vectors
    pt = bytes.fromhex("00112233445566778899aabbccddeeff")
    for key_hex, ct_hex in (
        ("000102030405060708090a0b0c0d0e0f", "69c4e0d86a7b0430d8cdb78070b4c55a"),
        ("000102030405060708090a0b0c0d0e0f1011121314151617", "dda97ca4864cdfe06eaf70a0ec0d7191"),
        ("000102030405060708090a0b0c0d0e0f101112131415161718191a1b1c1d1e1f", "8ea2b7ca516745bfeafc49904b496089"),
    ):
        key = bytes.fromhex(key_hex)
        ct = bytes.fromhex(ct_hex)
        assert pure_aes_encrypt_block(key, pt) == ct, "pure AES encrypt FIPS-197"
        assert pure_aes_decrypt_block(key, ct) == pt, "pure AES decrypt FIPS-197"
        assert ecb_encrypt_blocks(key, pt) == ct
        out["fips197"] += 1
    for klen in (16, 32):
        for _ in range(10):
            key = rnd.randbytes(klen)
            blk = rnd.randbytes(16)
            assert pure_aes_encrypt_block(key, blk) == ecb_encrypt_blocks(key, blk)
            assert pure_aes_decrypt_block(key, blk) == ecb_decrypt_blocks(key, blk)
            out["aes_vectors"] += 1
    # CBC against a from-scratch chain using the pure block op
    key = rnd.randbytes(32)
    data = rnd.randbytes(48)
    prev = bytes(16)
    exp = b""
    for i in range(0, 48, 16):
        prev = pure_aes_encrypt_block(key, xor(data[i:i + 16], prev))
        exp += prev
    assert cbc_encrypt(key, data) == exp
    assert cbc_decrypt(key, exp) == data
    ossl = shutil.which("openssl")
    if ossl:
        env = dict(os.environ)
        for klen, name in ((16, "aes-128-ecb"), (32, "aes-256-cbc")):
            for _ in range(3):
                key = rnd.randbytes(klen)
                data = rnd.randbytes(32)
                cmd = [ossl, "enc", "-" + name, "-K", key.hex(), "-nopad"]
                if "cbc" in name:
                    cmd += ["-iv", "00" * 16]
                try:
                    r = subprocess.run(cmd, input=data, capture_output=True, timeout=20, env=env)
                except Exception:
                    continue
                if r.returncode != 0:
                    continue
                exp = ecb_encrypt_blocks(key, data) if "ecb" in name else cbc_encrypt(key, data)
                assert r.stdout == exp, "openssl disagrees with reference " + name
                out["openssl_vectors"] += 1
        for alg, fn in (("md5", md5), ("sha256", sha256)):
            data = rnd.randbytes(77)
            try:
                r = subprocess.run([ossl, "dgst", "-" + alg, "-binary"], input=data, capture_output=True, timeout=20)
            except Exception:
                continue
            if r.returncode == 0:
                assert r.stdout == fn(data)
                out["openssl_vectors"] += 1
    return out


if __name__ == "__main__":
    print(selftest())
