"""Reference decoder of the 0x40 control body and encoder of the 0xC0 state body.

Transliterated from reference/T_0000_AC_00000Q14_2024013001.lua (line numbers
of the vendor file are given per field).  Where that file is silent or
self-contradictory the reading chosen is stated (see DESIGN.md, C10/C11 "S").
"""
from __future__ import annotations

from .prim import RefError

AUX_OFF, AUX_HEAT, AUX_ONLY = 0, 1, 2

FIELDS = ("power", "mode", "target_temperature", "fan", "swing", "eco", "turbo", "sleep",
          "fahrenheit", "freeze_protection", "follow_me", "purifier", "target_humidity", "aux")


def default_state() -> dict:
    return {
        "power": False, "mode": 2, "target_temperature": 24.0, "fan": 102, "swing": 0,
        "eco": False, "turbo": False, "sleep": False, "fahrenheit": False,
        "freeze_protection": False, "follow_me": False, "purifier": False,
        "target_humidity": 40, "aux": AUX_OFF,
        # report-only
        "display_on": True, "filter_alert": False,
        "indoor_raw": 0x62, "outdoor_raw": 0x5C, "indoor_tenths": 0, "outdoor_tenths": 0,
    }


def decode_0x40(body: bytes) -> dict:
    """Decode a control body (without message id / crc) per the vendor layout.

    Lua 3286-3445:  [1] power|0x02|buzzer 0x40   [2] mode&0xE0 | half<<4 | (temp-16)&0xF
    [3] fan (bit7 = timer switch)   [7] swing LR 0x03 | UD 0x0C | 0x30
    [8] strong wind 0x20 (follow-me 0x80: position taken from the 0xC0 report layout)
    [9] eco 0x80 | purifier 0x20 | PTC 0x08 | PTC force 0x10     [10] sleep 0x01 | turbo 0x02 | unit 0x04
    [18] alternate setpoint & 0x1F = temp-12   [19] humidity & 0x7F   [21] 8-degree heat 0x80
    [22] independent PTC 0x08
    """
    b = bytes(body)
    if len(b) < 24:
        raise RefError(f"control body too short: {len(b)}")
    if b[0] != 0x40:
        raise RefError("not a control body")
    alt = b[18] & 0x1F
    if alt:
        temp = float(alt + 12)
    else:
        temp = float((b[2] & 0x0F) + 16)
    if b[2] & 0x10:
        temp += 0.5
    aux = AUX_OFF
    if b[22] & 0x08:
        aux = AUX_ONLY
    elif b[9] & 0x08:
        aux = AUX_HEAT
    return {
        "power": bool(b[1] & 0x01),
        "beep": bool(b[1] & 0x40),
        "control_source_mobile": bool(b[1] & 0x02),
        "mode": (b[2] >> 5) & 0x7,
        "target_temperature": temp,
        "fan": b[3] & 0x7F,
        "swing": b[7] & 0x0F,
        "turbo": bool(b[8] & 0x20) or bool(b[10] & 0x02),
        "follow_me": bool(b[8] & 0x80),
        "eco": bool(b[9] & 0x80),
        "purifier": bool(b[9] & 0x20),
        "sleep": bool(b[10] & 0x01),
        "fahrenheit": bool(b[10] & 0x04),
        "target_humidity": b[19] & 0x7F,
        "freeze_protection": bool(b[21] & 0x80),
        "aux": aux,
        "aux_both": bool(b[22] & 0x08) and bool(b[9] & 0x08),
    }


def temperature_codes(temp: float) -> tuple[int, int, int]:
    """(primary nibble, alternate code, half flag) a device uses to report ``temp``."""
    whole = int(temp)
    half = 1 if temp - whole >= 0.5 else 0
    if 17 <= whole <= 30:
        return (whole - 16) & 0xF, 0, half
    return 0, (whole - 12) & 0x1F, half


def encode_0xC0(state: dict, length: int = 23, raw_overrides: dict | None = None) -> bytes:
    """Render ``state`` as a 0xC0 report body of ``length`` bytes (without check byte).

    Lua 1664-1836: [1] power 0x01  [2] mode|half|temp  [3] fan  [7] swing
    [8] strong 0x20, independent PTC 0x40 (1826), follow-me 0x80
    [9] PTC 0x08, eco 0x10 (1744), purifier 0x20  [10] sleep 0x01, turbo 0x02, unit 0x04 (1789)
    [11] indoor  [12] outdoor  [13] alt setpoint 0x1F, filter 0x20 (1752)
    [14] display (b>>4)&7 == 7 -> off (1806, 4357)   [15] tenths  [19] humidity  [21] 8-degree 0x80 (1819)
    """
    if length < 16:
        raise RefError("a state report has at least 16 bytes")
    b = bytearray(length)
    b[0] = 0xC0
    b[1] = 0x01 if state["power"] else 0x00
    prim, alt, half = temperature_codes(state["target_temperature"])
    b[2] = ((state["mode"] & 0x7) << 5) | (half << 4) | prim
    b[3] = state["fan"] & 0xFF
    b[4] = 0x7F
    b[5] = 0x7F
    b[7] = 0x30 | (state["swing"] & 0x0F)
    b[8] = (0x20 if state["turbo"] else 0) | (0x40 if state["aux"] == AUX_ONLY else 0) | (0x80 if state["follow_me"] else 0)
    b[9] = (0x08 if state["aux"] == AUX_HEAT else 0) | (0x10 if state["eco"] else 0) | (0x20 if state["purifier"] else 0)
    b[10] = (0x01 if state["sleep"] else 0) | (0x02 if state["turbo"] else 0) | (0x04 if state["fahrenheit"] else 0)
    b[11] = state.get("indoor_raw", 0xFF)
    b[12] = state.get("outdoor_raw", 0xFF)
    b[13] = alt | (0x20 if state.get("filter_alert") else 0)
    b[14] = 0x00 if state.get("display_on", True) else 0x70
    b[15] = (state.get("indoor_tenths", 0) & 0xF) | ((state.get("outdoor_tenths", 0) & 0xF) << 4)
    if length > 19:
        b[19] = state["target_humidity"] & 0x7F
    if length > 21:
        b[21] = 0x80 if state["freeze_protection"] else 0
    if raw_overrides:
        for i, v in raw_overrides.items():
            if i < length:
                b[i] = v & 0xFF
    return bytes(b)


def decode_temperature(raw: int, tenths: int, fahrenheit: bool):
    """Expected sensor reading (C11 statement).  Returns (value_or_None, coarse)."""
    if raw == 0xFF:
        return None, None
    coarse = (raw - 50) / 2
    return coarse, coarse


def decode_0xC0(body: bytes) -> dict:
    """Independent decode of a 0xC0 body -> expected public attribute values.

    A field is *present* iff its offset < len(body) (permissive reading).
    """
    b = bytes(body)
    if len(b) < 16 or b[0] != 0xC0:
        raise RefError("not a decodable state body")
    alt = b[13] & 0x1F
    temp = float(alt + 12) if alt else float((b[2] & 0xF) + 16)
    if b[2] & 0x10:
        temp += 0.5
    if b[8] & 0x40:
        aux = AUX_ONLY
    elif b[9] & 0x08:
        aux = AUX_HEAT
    else:
        aux = AUX_OFF
    d = {
        "power": bool(b[1] & 1),
        "mode_raw": (b[2] >> 5) & 7,
        "target_temperature": temp,
        "fan": b[3],
        "swing_raw": b[7] & 0xF,
        "turbo": bool(b[8] & 0x20) or bool(b[10] & 0x02),
        "follow_me": bool(b[8] & 0x80),
        "eco": bool(b[9] & 0x10),
        "purifier": bool(b[9] & 0x20),
        "sleep": bool(b[10] & 1),
        "fahrenheit": bool(b[10] & 4),
        "aux": aux,
        "filter_alert": bool(b[13] & 0x20),
        "display_on": ((b[14] >> 4) & 7) != 7,
        "indoor_raw": b[11], "outdoor_raw": b[12],
        "indoor_tenths": b[15] & 0xF, "outdoor_tenths": b[15] >> 4,
        "target_humidity": (b[19] & 0x7F) if len(b) > 19 else None,
        "freeze_protection": bool(b[21] & 0x80) if len(b) > 21 else None,
    }
    return d
