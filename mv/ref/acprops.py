"""Property protocol (0xB0 set / 0xB1 query) and capability list (0xB5) reference.

Vendor encodings (T_0000_AC_00000Q14_2024013001.lua):
  set    (3455-3900): id_lo id_hi size value...          report (1855-2140): id_lo id_hi result size value...
  0x0042 prevent straight wind: 1 = off, 2 = on (1867, 3466)     0x0043 gentle wind / breeze control: 1..4 (1977, 3490)
  0x0018 no wind sense: 0/1 (1909)          0x0039 self clean: 0/1 (1878, 3483)
  0x0048 rate select (2080, 3818)           0x0009 / 0x000A swing angle UD / LR
  0x001A buzzer (2042, 3682)                0x00E3 iECO: set 13 bytes frame,number,switch,... (3877); report number,switch (2118)
"""
from __future__ import annotations

from .prim import RefError

P_SWING_UD, P_SWING_LR, P_BREEZELESS, P_BUZZER, P_SELF_CLEAN = 0x0009, 0x000A, 0x0018, 0x001A, 0x0039
P_BREEZE_AWAY, P_BREEZE_CONTROL, P_RATE_SELECT, P_IECO = 0x0042, 0x0043, 0x0048, 0x00E3

SUPPORTED = (P_SWING_UD, P_SWING_LR, P_BREEZELESS, P_BUZZER, P_SELF_CLEAN,
             P_BREEZE_AWAY, P_BREEZE_CONTROL, P_RATE_SELECT, P_IECO)


def parse_query(body: bytes) -> list[int]:
    b = bytes(body)
    if len(b) < 2 or b[0] != 0xB1:
        raise RefError("not a property query")
    n = b[1]
    if len(b) != 2 + 2 * n:
        raise RefError(f"query count {n} does not match body length {len(b)}")
    return [b[2 + 2 * i] | (b[3 + 2 * i] << 8) for i in range(n)]


def parse_set(body: bytes) -> list[tuple[int, bytes]]:
    b = bytes(body)
    if len(b) < 2 or b[0] != 0xB0:
        raise RefError("not a property set")
    n = b[1]
    out = []
    i = 2
    for _ in range(n):
        if i + 3 > len(b):
            raise RefError("set record header past end")
        pid = b[i] | (b[i + 1] << 8)
        size = b[i + 2]
        if i + 3 + size > len(b):
            raise RefError("set record value past end")
        out.append((pid, b[i + 3:i + 3 + size]))
        i += 3 + size
    if i != len(b):
        raise RefError("trailing bytes after set records")
    return out


def build_report(resp_id: int, records: list[tuple[int, int, bytes]]) -> bytes:
    """records: (id, result_byte, value bytes)."""
    out = bytearray([resp_id, len(records)])
    for pid, result, value in records:
        out += bytes([pid & 0xFF, pid >> 8, result & 0xFF, len(value)]) + bytes(value)
    return bytes(out)


def set_value_to_report(pid: int, value: bytes) -> bytes:
    """What a device reports after accepting ``value`` for ``pid``."""
    if pid == P_IECO:
        if len(value) != 13:
            raise RefError("iECO set value must be 13 bytes (frame, number, switch, ...)")
        return bytes([value[1], value[2]])
    if len(value) != 1:
        raise RefError(f"property 0x{pid:04X} set value must be 1 byte")
    return bytes(value)


# ---------------------------------------------------------------------------
# capabilities

def build_caps(records: list[tuple[int, bytes]], more: bool = False, count: int | None = None,
               tail_extra: int = 0x00) -> bytes:
    """0xB5 body: B5 count (id16le size value...)* more_flag extra."""
    out = bytearray([0xB5, len(records) if count is None else count & 0xFF])
    for cid, value in records:
        out += bytes([cid & 0xFF, cid >> 8, len(value)]) + bytes(value)
    out += bytes([1 if more else 0, tail_extra & 0xFF])
    return bytes(out)
