"""Model of the NetHome Plus cloud used for token retrieval (independent of msmart).

It verifies every request *as received on the wire* (urlencoded form body):
  sign = sha256(path + '&'.join(k=v for sorted items except sign) + APP_KEY).hexdigest()
  password = sha256(loginId + sha256(password).hexdigest() + APP_KEY).hexdigest()
and keeps login ids, sessions and a token registry.  Faults (timeouts, HTTP status, API error codes,
connect errors) are scripted per request through ``faults`` (a list consumed one entry per HTTP request).
"""
from __future__ import annotations

import hashlib
import json
import re
from urllib.parse import parse_qsl, urlparse

import httpx

APP_KEY = "3742e9e5842d4ad59c2db887e12449f9"      # private copy
APP_ID = "1017"
HOST = "mapp.appsmb.com"


def udpid(device_id: int, endian: str) -> str:
    h = hashlib.sha256(device_id.to_bytes(6, endian)).digest()
    return bytes(a ^ b for a, b in zip(h[:16], h[16:])).hex()


class CloudModel:
    def __init__(self, accounts: dict[str, str], registry: dict[str, tuple[str, str]] | None = None) -> None:
        self.accounts = dict(accounts)
        self.registry = dict(registry or {})
        self.tokenlist_override = None   # callable(udpid) -> list of entries, for crafted lists
        self.invent_unknown = False      # True: unknown udpids get a bogus (token, key) like the real cloud
        self.list_all = False            # True: every getToken answer lists all registered entries (an account with several devices)
        self.login_ids = {}              # account -> loginId
        self.sessions = {}               # sessionId -> account
        self.requests = []               # (path, form dict, outcome)
        self.violations = []             # contract breaches seen on the wire
        self.faults = []                 # per-request scripted faults: None | 'timeout' | 'connect' | ('status', n) | ('api', code)
        self.counter = 0
        self.timeout_takes = 10.0        # a request that times out keeps the caller waiting this long (loop time) first

    # ---- httpx plumbing ----
    def client_factory(self):
        model = self

        async def handler(request: httpx.Request) -> httpx.Response:
            try:
                return model.handle(request)
            except httpx.TimeoutException:
                if model.timeout_takes:
                    import asyncio
                    await asyncio.sleep(model.timeout_takes)
                raise

        def factory(*a, **kw):
            return httpx.AsyncClient(transport=httpx.MockTransport(handler))
        return factory

    # ---- request handling ----
    def handle(self, request: httpx.Request) -> httpx.Response:
        self.counter += 1
        url = urlparse(str(request.url))
        path = url.path
        body = request.content.decode("ascii", "replace")
        pairs = parse_qsl(body, keep_blank_values=True)
        form = dict(pairs)
        fault = self.faults.pop(0) if self.faults else None
        rec = {"n": self.counter, "path": path, "form": form, "fault": fault, "host": url.netloc}
        self.requests.append(rec)
        if request.method != "POST":
            self.violations.append(f"{path}: method {request.method}")
        if url.netloc != HOST or url.scheme != "https":
            self.violations.append(f"request sent to {url.scheme}://{url.netloc}")
        if len(pairs) != len(form):
            self.violations.append(f"{path}: duplicate form keys")
        self._verify_common(path, form)
        if fault == "timeout":
            raise httpx.ReadTimeout("scripted timeout", request=request)
        if fault == "connect-timeout":
            raise httpx.ConnectTimeout("scripted connect timeout", request=request)
        if fault == "connect":
            raise httpx.ConnectError("scripted connect error", request=request)
        # timeouts of the other kinds httpx knows (all httpx.TimeoutException)
        if fault == "write-timeout":
            raise httpx.WriteTimeout("scripted write timeout", request=request)
        if fault == "pool-timeout":
            raise httpx.PoolTimeout("scripted pool timeout", request=request)
        # the remaining families of httpx.HTTPError: transport errors other than connect, protocol errors, redirects, decoding
        other = {"read-error": httpx.ReadError, "write-error": httpx.WriteError, "close-error": httpx.CloseError, "proxy-error": httpx.ProxyError,
                 "remote-protocol": httpx.RemoteProtocolError, "local-protocol": httpx.LocalProtocolError,
                 "unsupported-protocol": httpx.UnsupportedProtocol, "decoding": httpx.DecodingError, "too-many-redirects": httpx.TooManyRedirects}
        if isinstance(fault, str) and fault in other:
            raise other[fault](f"scripted {fault}", request=request)
        if isinstance(fault, (tuple, list)) and fault[0] == "status":
            return httpx.Response(fault[1], text="scripted", request=request)
        if isinstance(fault, (tuple, list)) and fault[0] == "api":
            return self._json(request, {"errorCode": str(fault[1]), "msg": "scripted api error"})
        if path == "/v1/user/login/id/get":
            acct = form.get("loginAccount")
            if acct not in self.accounts:
                return self._json(request, {"errorCode": "3102", "msg": "account does not exist"})
            lid = hashlib.md5(f"{acct}:{self.counter}".encode()).hexdigest()
            self.login_ids[acct] = lid
            return self._json(request, {"errorCode": "0", "result": {"loginId": lid}})
        if path == "/v1/user/login":
            acct = form.get("loginAccount")
            lid = self.login_ids.get(acct)
            if lid is None:
                self.violations.append("login without a login id having been issued")
                return self._json(request, {"errorCode": "3101", "msg": "no login id"})
            pw = self.accounts.get(acct, "")
            expect = hashlib.sha256((lid + hashlib.sha256(pw.encode("ascii")).hexdigest() + APP_KEY).encode("ascii")).hexdigest()
            if form.get("password") != expect:
                rec["bad_password"] = True
                return self._json(request, {"errorCode": "3101", "msg": "invalid password"})
            sid = hashlib.md5(f"session:{acct}:{self.counter}".encode()).hexdigest()
            self.sessions[sid] = acct
            return self._json(request, {"errorCode": "0", "result": {"sessionId": sid, "userId": "1"}})
        if path == "/v1/iot/secure/getToken":
            if form.get("sessionId") not in self.sessions:
                self.violations.append(f"getToken with unknown sessionId {form.get('sessionId')!r}")
                return self._json(request, {"errorCode": "3106", "msg": "invalid session"})
            u = form.get("udpid", "")
            if self.tokenlist_override is not None:
                lst = self.tokenlist_override(u)
            elif self.list_all:
                lst = [{"udpId": k, "token": v[0], "key": v[1]} for k, v in self.registry.items()]
                if u not in self.registry and self.invent_unknown:
                    lst.insert(len(lst) // 2, {"udpId": u, "token": hashlib.sha512(("t" + u).encode()).hexdigest(),
                                               "key": hashlib.sha256(("k" + u).encode()).hexdigest()})
            elif u in self.registry:
                lst = [{"udpId": u, "token": self.registry[u][0], "key": self.registry[u][1]}]
            elif self.invent_unknown:
                t = hashlib.sha512(("t" + u).encode()).hexdigest()
                k = hashlib.sha256(("k" + u).encode()).hexdigest()
                lst = [{"udpId": u, "token": t, "key": k}]
            else:
                lst = []
            return self._json(request, {"errorCode": "0", "result": {"tokenlist": lst}})
        self.violations.append(f"unexpected endpoint {path}")
        return httpx.Response(404, text="not found", request=request)

    def _json(self, request, obj) -> httpx.Response:
        return httpx.Response(200, text=json.dumps(obj), request=request)

    def _verify_common(self, path: str, form: dict) -> None:
        v = self.violations
        sign = form.get("sign")
        items = sorted((k, val) for k, val in form.items() if k != "sign")
        query = "&".join(f"{k}={val}" for k, val in items)
        expect = hashlib.sha256((path + query + APP_KEY).encode("ascii", "replace")).hexdigest()
        if sign != expect:
            v.append(f"{path}: signature does not verify")
        for k, want in (("appId", APP_ID), ("src", APP_ID), ("format", "2"), ("clientType", "1"), ("language", "en_US")):
            if form.get(k) != want:
                v.append(f"{path}: field {k}={form.get(k)!r}, expected {want!r}")
        if not form.get("deviceId"):
            v.append(f"{path}: deviceId missing")
        if not re.fullmatch(r"\d{14}", form.get("stamp", "")):
            v.append(f"{path}: stamp {form.get('stamp')!r} is not YYYYMMDDHHMMSS")
        if "sessionId" not in form:
            v.append(f"{path}: sessionId field missing")
