"""Process-level setup shared by all checks: import the code under observation from
the repository working tree, install the virtual clock and seeded entropy, reach
counters, and small helpers to run client code on a virtual loop."""
from __future__ import annotations

import logging
import os
import random
import sys

REPO = os.path.realpath(os.environ.get("MSMART_VERIF_REPO", "/repo"))
VERIF = os.path.dirname(os.path.dirname(os.path.abspath(__file__)))

# make sure `import msmart` is the working tree under observation
sys.path[:] = [p for p in sys.path if os.path.realpath(p or ".") != REPO]
sys.path.insert(0, REPO)
for _m in [m for m in sys.modules if m == "msmart" or m.startswith("msmart.")]:
    del sys.modules[_m]

import msmart  # noqa: E402

if not os.path.realpath(msmart.__file__).startswith(REPO + os.sep):
    raise SystemExit(f"INCONCLUSIVE reason=msmart imported from {msmart.__file__}, not from {REPO}")

import msmart.lan  # noqa: E402
import msmart.cloud  # noqa: E402
import msmart.discover  # noqa: E402
from msmart.device import AirConditioner  # noqa: E402,F401

from .runtime import vloop  # noqa: E402
from .runtime.simnet import SimNet  # noqa: E402

vloop.install_clock()

# quiet (msmart logs errors for every rejected frame; that is expected traffic here)
logging.disable(logging.CRITICAL)

_ENTROPY = random.Random(0)


def seed_entropy(seed: int) -> None:
    _ENTROPY.seed(seed)


def _seeded_random_bytes(n: int) -> bytes:
    return _ENTROPY.randbytes(n)


msmart.lan.get_random_bytes = _seeded_random_bytes


# ---------------------------------------------------------------------------
# reach counters (sys.monitoring)

class Reach:
    """Counts PY_START/PY_RESUME/PY_THROW events per function of the repo's msmart package."""

    TOOL = 4

    def __init__(self) -> None:
        self.counts = {}
        self.active = False

    def start(self) -> None:
        mon = sys.monitoring
        try:
            mon.use_tool_id(self.TOOL, "mv-reach")
        except ValueError:
            return
        E = mon.events
        prefix = os.path.join(REPO, "msmart") + os.sep
        counts = self.counts

        def on_start(code, offset):
            fn = code.co_filename
            if not fn.startswith(prefix):
                return mon.DISABLE
            key = fn[len(prefix):] + ":" + code.co_qualname
            counts[key] = counts.get(key, 0) + 1

        def on_throw(code, offset, exc):
            fn = code.co_filename
            if fn.startswith(prefix):
                key = fn[len(prefix):] + ":" + code.co_qualname
                counts[key] = counts.get(key, 0) + 1

        mon.register_callback(self.TOOL, E.PY_START, on_start)
        mon.register_callback(self.TOOL, E.PY_RESUME, on_start)
        mon.register_callback(self.TOOL, E.PY_THROW, on_throw)
        mon.set_events(self.TOOL, E.PY_START | E.PY_RESUME | E.PY_THROW)
        self.active = True

    def stop(self) -> None:
        if self.active:
            sys.monitoring.set_events(self.TOOL, 0)
            sys.monitoring.free_tool_id(self.TOOL)
            self.active = False

    def get(self, suffix: str) -> int:
        """Sum of counts of functions matching the anchor ``file.py:Class.method``: the file and the method name must match,
        the class need not (a method may legitimately move to a base class or a helper class of the same module)."""
        if ":" not in suffix:
            return sum(v for k, v in self.counts.items() if k.endswith(suffix))
        fpart, qual = suffix.rsplit(":", 1)
        meth = qual.rsplit(".", 1)[-1]
        total = 0
        for k, v in self.counts.items():
            kf, kq = k.rsplit(":", 1)
            if kf.endswith(fpart) and (kq == meth or kq.endswith("." + meth)):
                total += v
        return total


REACH = Reach()


# ---------------------------------------------------------------------------
# helpers

def new_net() -> SimNet:
    return SimNet()


class OperationNeverTerminates(Exception):
    """The operation under observation spun without virtual time advancing (vloop.VirtualLivelock): on a real system it would
    never return.  Re-raised as an ordinary exception so that it is judged like any other failure of the operation."""


class CancelledErrorEscaped(Exception):
    """asyncio.CancelledError came out of the top-level coroutine although nobody cancelled it: some library call let a
    cancellation of one of its own tasks escape.  Re-raised as an ordinary exception so that every check's
    `except Exception` treats it like any other exception that escaped the operation under observation."""


def run_virtual(coro_fn, net=None, epoch=None, start: float = 0.0):
    """Run ``coro_fn(loop)`` on a fresh VLoop attached to ``net``; returns (result, loop)."""
    import asyncio
    # Discover keeps class-level state tied to a loop
    msmart.discover.Discover._lock = None
    msmart.discover.Discover._cloud = None
    try:
        return vloop.run(coro_fn, net=net, epoch=epoch, start=start)
    except asyncio.CancelledError as e:
        raise CancelledErrorEscaped("asyncio.CancelledError escaped the operation") from e
    except vloop.VirtualLivelock as e:
        raise OperationNeverTerminates(str(e)) from e


def public_state(ac) -> dict:
    """Snapshot of an AirConditioner through public getters only."""
    return {
        "power": ac.power_state, "mode": ac.operational_mode, "target_temperature": ac.target_temperature,
        "fan": ac.fan_speed, "swing": ac.swing_mode, "eco": ac.eco, "turbo": ac.turbo, "sleep": ac.sleep,
        "fahrenheit": ac.fahrenheit, "freeze_protection": ac.freeze_protection, "follow_me": ac.follow_me,
        "purifier": ac.purifier, "target_humidity": ac.target_humidity, "aux": ac.aux_mode,
        "display_on": ac.display_on, "filter_alert": ac.filter_alert,
        "indoor_temperature": ac.indoor_temperature, "outdoor_temperature": ac.outdoor_temperature,
    }


class _RetainingHandler(logging.Handler):
    """Formats every record and keeps the last few thousand (what pytest's caplog, a MemoryHandler or a queue handler feeding
    another thread do): arguments of log calls stay referenced after the call returned."""

    def __init__(self):
        super().__init__(logging.DEBUG)
        import collections
        self.records = collections.deque(maxlen=4000)
        self.format_errors = 0

    def emit(self, record):
        try:
            record.getMessage()
        except Exception:  # noqa: BLE001 - a malformed log call is not what any property is about
            self.format_errors += 1
        self.records.append(record)


class debug_logging:
    """Context manager: msmart's loggers at DEBUG level into a handler that formats and retains the records (a configuration
    some applications and most test suites run with)."""

    def __enter__(self):
        self.lg = logging.getLogger("msmart")
        self.old = (self.lg.level, self.lg.propagate, list(self.lg.handlers))
        self.h = _RetainingHandler()
        self.lg.addHandler(self.h)
        self.lg.setLevel(logging.DEBUG)
        self.lg.propagate = False
        logging.disable(logging.NOTSET)
        return self

    def __exit__(self, *a):
        logging.disable(logging.CRITICAL)
        self.lg.removeHandler(self.h)
        self.lg.setLevel(self.old[0])
        self.lg.propagate = self.old[1]
        return False
