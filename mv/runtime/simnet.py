"""In-memory TCP/UDP network for the virtual loop.

Transport semantics copy ``asyncio.selector_events._SelectorSocketTransport``:

* ``write()`` never raises; data goes to the simulated peer via ``call_soon``.
  A write on a closing transport is dropped (and counted).
* peer FIN  -> ``protocol.eof_received()``; falsy result closes the transport,
  ``connection_lost(None)`` follows via ``call_soon``.
* peer RST  -> transport closing at once, ``connection_lost(ConnectionResetError)``.
* an exception raised by ``protocol.data_received`` is reported to the loop's
  exception handler and force-closes the transport (``_fatal_error``).
* ``close()`` is idempotent.

Every event is appended to ``net.log`` (single thread, virtual timestamps).
"""
from __future__ import annotations

import asyncio
from typing import Callable, Optional


class SimTransport(asyncio.Transport):
    _next_id = 0

    def __init__(self, net, loop, protocol, host, port, server) -> None:
        super().__init__()
        SimTransport._next_id += 1
        self.conn_id = SimTransport._next_id
        self.net = net
        self.loop = loop
        self.protocol = protocol
        self.host = host
        self.port = port
        self.server = server          # device-side connection object
        self._closing = False
        self._lost = False
        self.t_open = loop.time()
        self.writes_after_close = 0
        self.callback_exceptions = []  # exceptions raised inside data_received
        self.paused = False

    # ---- asyncio.Transport API used by the client ----
    def get_extra_info(self, name, default=None):
        if name == "peername":
            return (self.host, self.port)
        if name == "sockname":
            return ("192.0.2.1", 50000 + self.conn_id % 10000)
        return default

    def is_closing(self) -> bool:
        return self._closing

    def write(self, data) -> None:
        data = bytes(data)
        if self._closing:
            self.writes_after_close += 1
            self.net.log.append((self.loop.time(), "conn", self.conn_id, "write_after_close", len(data)))
            return
        if not data:
            return
        self.net.log.append((self.loop.time(), "rx", self.conn_id, data))
        self.net.bytes_to_devices += len(data)
        if self.server is not None:
            self.loop.call_soon(self.server.on_data, data)

    def close(self) -> None:
        if self._closing:
            return
        self._closing = True
        self.net.log.append((self.loop.time(), "conn", self.conn_id, "closed_by_client"))
        self.net.open_conns.discard(self)
        self.loop.call_soon(self._call_connection_lost, None)
        if self.server is not None:
            self.loop.call_soon(self.server.on_client_close)

    def abort(self) -> None:
        self.close()

    def can_write_eof(self) -> bool:
        return True

    def write_eof(self) -> None:  # not used by msmart
        pass

    def pause_reading(self) -> None:
        self.paused = True

    def resume_reading(self) -> None:
        self.paused = False

    def set_protocol(self, protocol) -> None:
        self.protocol = protocol

    def get_protocol(self):
        return self.protocol

    def get_write_buffer_size(self) -> int:
        return 0

    # ---- internals ----
    def _call_connection_lost(self, exc) -> None:
        if self._lost:
            return
        self._lost = True
        try:
            self.protocol.connection_lost(exc)
        except Exception as e:  # asyncio would log it via the handle's _run
            self.loop.call_exception_handler({"message": "connection_lost failed", "exception": e})

    def _force_close(self, exc) -> None:
        if self._lost:
            return
        if not self._closing:
            self._closing = True
            self.net.open_conns.discard(self)
        self.loop.call_soon(self._call_connection_lost, exc)

    # ---- peer side API ----
    def peer_send(self, data: bytes) -> None:
        """Deliver one TCP segment to the client protocol (now)."""
        if self._closing or self._lost or not data:
            return
        self.net.log.append((self.loop.time(), "tx", self.conn_id, bytes(data)))
        try:
            self.protocol.data_received(bytes(data))
        except (SystemExit, KeyboardInterrupt):
            raise
        except BaseException as exc:  # noqa: BLE001 - mirrors asyncio
            self.callback_exceptions.append(exc)
            self.net.callback_exceptions.append((self.loop.time(), self.conn_id, exc))
            self.loop.call_exception_handler({
                "message": "Fatal error: protocol.data_received() call failed.",
                "exception": exc, "transport": self, "protocol": self.protocol})
            self._force_close(exc)

    def peer_fin(self) -> None:
        if self._closing or self._lost:
            return
        self.net.log.append((self.loop.time(), "conn", self.conn_id, "fin"))
        try:
            keep_open = self.protocol.eof_received()
        except BaseException as exc:  # noqa: BLE001
            self.loop.call_exception_handler({"message": "eof_received failed", "exception": exc})
            self._force_close(exc)
            return
        if keep_open:
            return
        # close(): flush + connection_lost(None)
        self._closing = True
        self.net.open_conns.discard(self)
        self.loop.call_soon(self._call_connection_lost, None)

    def peer_rst(self) -> None:
        if self._lost:
            return
        self.net.log.append((self.loop.time(), "conn", self.conn_id, "rst"))
        self._force_close(ConnectionResetError(104, "Connection reset by peer"))


class FakeSocket:
    def __init__(self) -> None:
        self.options = []

    def setsockopt(self, level, optname, value) -> None:
        self.options.append((level, optname, value))

    def getsockname(self):
        return ("0.0.0.0", 40000)


class SimDatagramTransport(asyncio.DatagramTransport):
    def __init__(self, net, loop, protocol, local_addr) -> None:
        super().__init__()
        self.net = net
        self.loop = loop
        self.protocol = protocol
        self.local_addr = local_addr or ("0.0.0.0", 0)
        self.sock = FakeSocket()
        self._closing = False
        self.sent = []

    def get_extra_info(self, name, default=None):
        if name == "socket":
            return self.sock
        if name == "sockname":
            return self.local_addr
        return default

    def is_closing(self) -> bool:
        return self._closing

    def sendto(self, data, addr=None) -> None:
        if self._closing:
            return
        data = bytes(data)
        self.sent.append((self.loop.time(), data, addr))
        self.net.log.append((self.loop.time(), "dgram", "out", addr, data))
        self.net.datagrams_out += 1
        self.net.bytes_to_devices += len(data)
        self.loop.call_soon(self.net.route_datagram, self, data, addr)

    def close(self) -> None:
        if self._closing:
            return
        self._closing = True
        self.loop.call_soon(self.protocol.connection_lost, None)

    def abort(self) -> None:
        self.close()

    # peer side
    def deliver(self, data: bytes, addr) -> None:
        if self._closing:
            return
        self.net.log.append((self.loop.time(), "dgram", "in", addr, bytes(data)))
        try:
            self.protocol.datagram_received(bytes(data), addr)
        except (SystemExit, KeyboardInterrupt):
            raise
        except BaseException as exc:  # noqa: BLE001 - asyncio: _fatal_error
            self.net.callback_exceptions.append((self.loop.time(), "udp", exc))
            self.loop.call_exception_handler({
                "message": "Fatal error on transport (datagram_received)",
                "exception": exc, "transport": self, "protocol": self.protocol})
            self.close()


class SimNet:
    """Registry of simulated TCP listeners and UDP responders."""

    REFUSE = "refuse"
    HANG = "hang"

    def __init__(self) -> None:
        self.loop = None
        self.log = []                 # event log (see DESIGN 1.4)
        self.listeners = {}           # (host, port) -> callable(transport) -> server conn | REFUSE | HANG
        self.default_tcp = self.REFUSE
        self.udp_hosts = []           # objects with on_datagram(net, transport, data, addr)
        self.open_conns = set()
        self.all_conns = []
        self.callback_exceptions = []
        self.bytes_to_devices = 0
        self.datagrams_out = 0
        self.connect_attempts = 0
        self.connect_latency = 0.0
        self.max_open_per_endpoint = 0

    # ---- TCP ----
    def listen(self, host, port, acceptor) -> None:
        self.listeners[(host, port)] = acceptor

    async def tcp_connect(self, loop, protocol_factory, host, port):
        self.connect_attempts += 1
        # livelock guard: thousands of connection attempts at one virtual instant is an unbounded reconnect loop
        if getattr(self, "_burst_t", None) == loop.time():
            self._burst_n += 1
            if self._burst_n > 3000:
                from .vloop import VirtualLivelock
                raise VirtualLivelock(f"{self._burst_n} connection attempts at virtual time {loop.time():.3f}")
        else:
            self._burst_t, self._burst_n = loop.time(), 1
        acceptor = self.listeners.get((host, port), self.default_tcp)
        if isinstance(acceptor, (str, BaseException)):
            policy = acceptor
        elif hasattr(acceptor, "connect_policy"):
            policy = acceptor.connect_policy(host, port)
        else:
            policy = None
        if policy == self.REFUSE:
            self.log.append((loop.time(), "conn", None, "refused", (host, port)))
            await asyncio.sleep(0)
            raise ConnectionRefusedError(111, f"Connect call failed ({host!r}, {port})")
        if policy == self.HANG:
            self.log.append((loop.time(), "conn", None, "hang", (host, port)))
            await loop.create_future()  # never resolves; must be cancelled by wait_for
        if isinstance(policy, BaseException):
            await asyncio.sleep(0)
            raise policy
        if self.connect_latency:
            await asyncio.sleep(self.connect_latency)
        else:
            await asyncio.sleep(0)
        protocol = protocol_factory()
        transport = SimTransport(self, loop, protocol, host, port, None)
        server = acceptor(transport)
        transport.server = server
        self.open_conns.add(transport)
        self.all_conns.append(transport)
        n = sum(1 for t in self.open_conns if (t.host, t.port) == (host, port))
        self.max_open_per_endpoint = max(self.max_open_per_endpoint, n)
        self.log.append((loop.time(), "conn", transport.conn_id, "open", (host, port)))
        protocol.connection_made(transport)
        return transport, protocol

    # ---- UDP ----
    async def udp_endpoint(self, loop, protocol_factory, local_addr, remote_addr, preset_options=()):
        await asyncio.sleep(0)
        protocol = protocol_factory()
        transport = SimDatagramTransport(self, loop, protocol, local_addr)
        for opt in preset_options:
            transport.sock.options.append(tuple(opt))
        self.udp_transports = getattr(self, "udp_transports", [])
        self.udp_transports.append(transport)
        protocol.connection_made(transport)
        return transport, protocol

    def route_datagram(self, transport, data, addr) -> None:
        for h in list(self.udp_hosts):
            h.on_datagram(self, transport, data, addr)
