"""Virtual-time asyncio event loop with an in-memory network.

The loop is a real ``asyncio.SelectorEventLoop``: every timer, ``wait_for``,
``sleep``, task and callback of the code under observation runs through the
stock asyncio machinery.  Two things are replaced:

* ``time()`` returns a virtual clock, and the selector's ``select(timeout)`` is
  wrapped so that it advances the virtual clock by ``timeout`` and polls with
  zero.  ``select(None)`` with nothing runnable is a deadlock and raises
  ``VirtualDeadlock`` (the run is then *inconclusive/hang*, never a silent wait).
* ``create_connection`` / ``create_datagram_endpoint`` hand the protocol factory
  an in-memory transport attached to ``loop.net`` (see ``simnet``).
"""
from __future__ import annotations

import asyncio
import datetime as _dt


class VirtualDeadlock(RuntimeError):
    """The loop would block forever: nothing ready, nothing scheduled."""


class VirtualLivelock(BaseException):
    """The code under observation keeps the loop busy without virtual time ever advancing (e.g. an unbounded reconnect
    loop): the operation never terminates.  A BaseException so that library code cannot swallow it."""


MAX_ITERATIONS_PER_INSTANT = 3_000_000


class VLoop(asyncio.SelectorEventLoop):
    def __init__(self, net=None, start: float = 0.0) -> None:
        super().__init__()
        self._vtime = float(start)
        self._clock_resolution = 1e-6
        self.net = net
        self.unhandled = []          # records delivered to the loop exception handler
        self.select_calls = 0
        self.virtual_jumps = 0
        if net is not None:
            net.loop = self
        real_select = self._selector.select

        self._spins = 0

        def select(timeout=None):
            self.select_calls += 1
            if timeout is not None and timeout <= 0:
                self._spins += 1
                if self._spins > MAX_ITERATIONS_PER_INSTANT:
                    self._spins = 0
                    raise VirtualLivelock(f"{MAX_ITERATIONS_PER_INSTANT} loop iterations at virtual time {self._vtime:.3f} without progress of time")
            else:
                self._spins = 0
            if timeout is None:
                # Only the self-pipe is registered; nothing can wake us.
                events = real_select(0)
                if events:
                    return events
                raise VirtualDeadlock("virtual loop would block forever")
            if timeout > 0:
                self._vtime += timeout
                self.virtual_jumps += 1
            return real_select(0)

        self._selector.select = select  # type: ignore[method-assign]
        self.set_exception_handler(self._record_unhandled)

    # -- clock ---------------------------------------------------------
    def time(self) -> float:  # noqa: D401
        return self._vtime

    # -- exception handler (orphan-exception detector) -----------------
    def _record_unhandled(self, loop, context) -> None:
        exc = context.get("exception")
        self.unhandled.append({
            "t": self._vtime,
            "message": context.get("message"),
            "exc_class": type(exc).__name__ if exc is not None else None,
            "exc": repr(exc) if exc is not None else None,
        })

    # -- network -------------------------------------------------------
    async def create_connection(self, protocol_factory, host=None, port=None, **kw):  # type: ignore[override]
        if self.net is None:
            raise OSError("no simulated network attached")
        return await self.net.tcp_connect(self, protocol_factory, host, port)

    def run_in_executor(self, executor, func, *args):  # type: ignore[override]
        """Threads do not exist on the virtual loop: the function runs at once, in line, and the caller gets a finished future (what a
        thread pool gives for a call that takes no virtual time).  Without this a library that moves blocking work to the default
        executor would leave the virtual loop with nothing to wait for."""
        fut = self.create_future()
        try:
            fut.set_result(func(*args))
        except BaseException as e:  # noqa: BLE001
            if isinstance(e, (KeyboardInterrupt, SystemExit)):
                raise
            fut.set_exception(e)
        return fut

    async def getaddrinfo(self, host, port, *, family=0, type=0, proto=0, flags=0):  # type: ignore[override]
        """Name resolution on the simulated network: numeric addresses resolve to themselves, names to the simulated host that
        carries them; anything else does not exist (no real resolver is ever asked)."""
        import ipaddress
        import socket as _socket
        await asyncio.sleep(0)
        if isinstance(host, bytes):
            host = host.decode()
        ip = None
        try:
            ip = str(ipaddress.ip_address(host))
        except ValueError:
            for h in getattr(self.net, "udp_hosts", []) if self.net is not None else []:
                if host in getattr(h, "names", ()):
                    ip = h.ip
                    break
        if ip is None or ":" in ip:
            raise _socket.gaierror(-2, "Name or service not known")
        kinds = [(type or _socket.SOCK_STREAM, proto or (17 if type == _socket.SOCK_DGRAM else 6))]
        return [(_socket.AF_INET, k, pr, "", (ip, int(port or 0))) for k, pr in kinds]

    async def create_datagram_endpoint(self, protocol_factory, local_addr=None, remote_addr=None, **kw):  # type: ignore[override]
        if self.net is None:
            raise OSError("no simulated network attached")
        sock = kw.get("sock")
        preset = []
        if sock is not None:
            # the library made its own UDP socket: its options and bound address carry over to the simulated endpoint, the real
            # socket is closed (nothing may leave the sandbox)
            import socket as _socket
            try:
                for level, opt in ((_socket.SOL_SOCKET, _socket.SO_BROADCAST), (_socket.SOL_SOCKET, _socket.SO_REUSEADDR)):
                    if sock.getsockopt(level, opt):
                        preset.append((level, opt, 1))
                local_addr = local_addr or sock.getsockname()
            except OSError:
                pass
            try:
                sock.close()
            except OSError:
                pass
        return await self.net.udp_endpoint(self, protocol_factory, local_addr, remote_addr, preset_options=preset)


# ---------------------------------------------------------------------------
# Virtual wall clock

_ACTIVE_LOOP = None
_EPOCH = _dt.datetime(2024, 1, 1, tzinfo=_dt.timezone.utc)


WALL_OFFSET = 0.0          # seconds the wall clock has been stepped (NTP correction, resume from suspend) during the current run
import time as _time
REAL_TIME = _time.time


def set_active(loop, epoch: _dt.datetime | None = None) -> None:
    global _ACTIVE_LOOP, _EPOCH, WALL_OFFSET
    _ACTIVE_LOOP = loop
    WALL_OFFSET = 0.0
    if epoch is not None:
        _EPOCH = epoch


def wall_step(seconds: float) -> None:
    """The system's wall clock jumps by ``seconds`` (the loop's monotonic clock does not)."""
    global WALL_OFFSET
    WALL_OFFSET += seconds


def virtual_time() -> float:
    """time.time() while a virtual loop is running: epoch + virtual seconds + wall-clock steps; the real clock otherwise."""
    loop = _ACTIVE_LOOP
    if loop is None or loop.is_closed():
        return REAL_TIME()
    return _EPOCH.timestamp() + loop.time() + WALL_OFFSET


class VDatetime(_dt.datetime):
    """datetime whose now() follows the active virtual loop."""

    @classmethod
    def now(cls, tz=None):  # type: ignore[override]
        loop = _ACTIVE_LOOP
        secs = (loop.time() if loop is not None else 0.0) + WALL_OFFSET
        base = _EPOCH + _dt.timedelta(seconds=secs)
        r = cls(base.year, base.month, base.day, base.hour, base.minute,
                base.second, base.microsecond, tzinfo=base.tzinfo)
        if tz is None:
            # like the real datetime.now(): naive LOCAL time (process time zone, TZ / time.tzset())
            loc = base.astimezone()
            return cls(loc.year, loc.month, loc.day, loc.hour, loc.minute, loc.second, loc.microsecond)
        return r.astimezone(tz)

    @classmethod
    def utcnow(cls):  # type: ignore[override]
        return cls.now(_dt.timezone.utc).replace(tzinfo=None)


def install_clock() -> None:
    """Rebind the module-level ``datetime`` names msmart reads the wall clock from."""
    import msmart.cloud
    import msmart.lan
    msmart.lan.datetime = VDatetime
    msmart.cloud.datetime = VDatetime
    # time.time() read through the module attribute (the usual way) follows the virtual loop while one is running
    _time.time = virtual_time


def run(coro_fn, net=None, epoch=None, start: float = 0.0):
    """Run ``coro_fn(loop)`` to completion on a fresh virtual loop.

    Returns (result, loop).  Exceptions from the coroutine propagate.
    """
    loop = VLoop(net, start=start)
    set_active(loop, epoch)
    asyncio.set_event_loop(loop)
    try:
        result = loop.run_until_complete(coro_fn(loop))
        # let pending call_soon callbacks (connection_lost etc.) run
        loop.run_until_complete(_drain())
        return result, loop
    finally:
        try:
            _cancel_all(loop)
        finally:
            asyncio.set_event_loop(None)
            loop.close()


async def _drain():
    for _ in range(3):
        await asyncio.sleep(0)


def _cancel_all(loop) -> None:
    tasks = [t for t in asyncio.all_tasks(loop) if not t.done()]
    for t in tasks:
        t.cancel()
    if tasks:
        try:
            loop.run_until_complete(asyncio.gather(*tasks, return_exceptions=True))
        except Exception:  # pragma: no cover - best effort
            pass
