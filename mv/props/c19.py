"""C19 - cloud token retrieval follows the API contract and returns only matching credentials."""
from __future__ import annotations

import random

from .. import harness as H
from ..ref import cloudsrv
from ..ref import discovery as D
from ..simdev import ACModel, SimDevice, SimHost

from msmart.cloud import CloudError, NetHomePlusCloud
from msmart.discover import Discover

ID = "C19"
LEVEL = "exploration"
RULE = ("token case = (account, password over printable ASCII incl. + & = % space @, or a region's built-in credentials; requested udpid; a "
        "crafted token list with the matching entry absent / first / middle / last among near-miss ids (prefix, suffix, one character "
        "changed, other device); a fault script per HTTP request from {timeout, connect timeout, connect error, HTTP 4xx/5xx, API error "
        "code}). The model server (injected through get_async_client, httpx.MockTransport) verifies every request on the wire: signature "
        "over path + sorted k=v + app key, appId/src/format/clientType/language/deviceId/stamp, password derivation from the issued login "
        "id, session id issued at login. Oracle: no wire violation; returned (token, key) is exactly the matching entry's, CloudError if "
        "absent; timeouts are retried up to 3 attempts per request and then, like HTTP/API errors at the first occurrence, surface as "
        "CloudError (never another exception). e2e case = Discover.discover(auto_connect=True) on a simulated V3 device whose credentials "
        "are registered under udpid(id, little) or udpid(id, big): Device.token/key must equal the registered ones and the device must be "
        "authenticated and refreshed. distinct = case parameters; all non-trivial")
ASSUMPTIONS = ["no offline ground truth of the real server exists: the model is a second implementation of the documented algorithm, checked on the wire form",
               "credentials are ASCII (the client encodes them as ASCII)", "near-miss ids never differ from the requested id by letter case only",
               "for the end-to-end cases the service answers an id it does not know with invented credentials (as the real service does); a service "
               "that answers with an empty list is generated only for devices registered under the little-endian id (asked for first) - with such a "
               "service the unchanged client gives up before trying the big-endian id, which is outside what can be checked against a real service offline",
               "a request that times out keeps the caller waiting 10 s of loop time, so the wall clock has moved on when it is resent"]
# reach anchors: only entry points this check calls itself or callbacks the event loop needs (robust against internal refactors);
# that the mechanism was really exercised is demanded through MIN_NONTRIVIAL / MIN_HIST outcome counts
ANCHORS = ["cloud.py:NetHomePlusCloud.login", "cloud.py:BaseCloud.get_token", "discover.py:Discover.discover"]
MIN_NONTRIVIAL = {"quick": 1500, "thorough": 30000}
MIN_HIST = {"quick": {"token-returned-correct": 500, "e2e-authenticated": 40}, "thorough": {"token-returned-correct": 10000, "e2e-authenticated": 800}}
WORKERS = {"quick": 1, "thorough": 16}
EXHAUSTIVE = {t: ["match position {absent, first, middle, last} x near-miss kinds", "all fault scripts of length <= 3 per request stage over 6 fault kinds",
                  "both udpid byte orders in the e2e case", "built-in credentials of the 3 regions"] for t in ("quick", "thorough")}

DEFAULTS = {"DE": ("nethome+de@mailinator.com", "password1"), "KR": ("nethome+sea@mailinator.com", "password1"),
            "US": ("nethome+us@mailinator.com", "password1")}
SPECIAL = "+&=% @!#$*()-_.~/?:;,'"
FAULTS = ["timeout", "connect-timeout", "connect", ["status", 500], ["status", 404], ["api", 3004]]
# further kinds, used in the random fault scripts (the exhaustive scripts keep the six above)
MORE_FAULTS = ["write-timeout", "pool-timeout", "read-error", "write-error", "close-error", "proxy-error", "remote-protocol", "local-protocol",
               "unsupported-protocol", "decoding", "too-many-redirects", ["api", 3106], ["api", 3101], ["api", 3102], ["api", 9999], ["api", 1],
               ["status", 301], ["status", 401], ["status", 503]]
TIMEOUT_FAULTS = ("timeout", "connect-timeout", "write-timeout", "pool-timeout")


def _cred(rng):
    alphabet = "abcdefghijklmnopqrstuvwxyzABCDEFGHIJKLMNOPQRSTUVWXYZ0123456789" + SPECIAL
    acct = "".join(rng.choice(alphabet) for _ in range(rng.randint(3, 14))) + "@" + "".join(rng.choice("abcxyz.") for _ in range(6))
    pw = "".join(rng.choice(alphabet) for _ in range(rng.randint(1, 20)))
    return acct, pw


def _near(rng, u):
    k = rng.randrange(5)
    if k == 0:
        return u[:-1]
    if k == 1:
        return u + "0"
    if k == 2:
        i = rng.randrange(len(u))
        c = "0123456789abcdef"[(int(u[i], 16) + 1) % 16]
        return u[:i] + c + u[i + 1:]
    if k == 3:
        return u[1:] + u[0] if u[1:] + u[0] != u else u[::-1]
    return "%032x" % rng.getrandbits(128)


def generate(ctx, rng):
    for key, case in _generate(ctx, rng):
        if case.get("kind") == "e2e" and case.get("endian") == "little":
            case["invent"] = rng.random() < 0.5
        yield key, case


def _generate(ctx, rng):
    quick = ctx.tier == "quick"
    n = 0
    # list positions x sizes
    for pos in ("absent", "first", "middle", "last", "only", "empty-list"):
        for size in (1, 2, 3, 5, 9):
            for _ in range(20 if quick else 60):
                n += 1
                yield ("list", n), _tok_case(rng, pos=pos, size=size)
    # fault scripts per stage
    for stage in range(3):
        for L in (1, 2, 3):
            scripts = _scripts(L)
            if quick and L == 3:
                scripts = rng.sample(scripts, 60)
            for sc in scripts:
                n += 1
                c = _tok_case(rng, pos="middle", size=3)
                c["faults"] = [None] * 0
                c["stage_faults"] = {str(stage): sc}
                yield ("fault", n), c
    for region in DEFAULTS:
        for _ in range(3):
            n += 1
            yield ("region", n), _tok_case(rng, pos="first", size=2, region=region)
    yield ("badpw", 0), {**_tok_case(rng, pos="first", size=1), "wrong_password": True}
    for j in range(1200 if quick else 900000):
        c = _tok_case(rng, pos=rng.choice(["absent", "first", "middle", "last", "only"]), size=rng.randint(1, 9))
        if rng.random() < 0.3:
            c["stage_faults"] = {str(rng.randrange(3)): [rng.choice(FAULTS + MORE_FAULTS + [None]) for _ in range(rng.randint(1, 3))]}
        yield ("rnd", j), c
    # several lookups in flight on ONE cloud object, the server listing every registered entry in each answer
    for j in range(60 if quick else 45000):
        yield ("concurrent-tokens", j), {"kind": "concurrent-tokens", "n": rng.randint(2, 5), "cred": _cred(rng), "cseed": rng.getrandbits(32),
                                         "latency": rng.choice([0.0, 0.1, 0.5])}
    # several V3 devices discovered in one run (authenticated concurrently through one shared cloud object)
    for j in range(25 if quick else 18000):
        nd = rng.randint(2, 4)
        yield ("e2e-multi", j), {"kind": "e2e-multi", "ids": [rng.getrandbits(48) | 1 for _ in range(nd)],
                                 "endians": [rng.choice(["little", "big"]) for _ in range(nd)], "cred": _cred(rng), "cseed": rng.getrandbits(32)}
    # device ids whose udpid (in the byte order the device is registered under) starts with one or two zero bytes
    zero_ids = _leading_zero_ids()
    for j, (did, endian, nz) in enumerate(zero_ids):
        yield ("e2e-zero", j), {"kind": "e2e", "id": did, "endian": endian, "token": rng.randbytes(64), "key": rng.randbytes(32), "cred": _cred(rng),
                                "mode": "broadcast" if j % 2 else "single", "others": 0}
    # several V3 devices connected one after the other while the cloud has a transient fault during the first login
    for j in range(40 if quick else 22500):
        nd = rng.randint(2, 3)
        yield ("e2e-connect", j), {"kind": "e2e-connect", "ids": [rng.getrandbits(48) | 1 for _ in range(nd)],
                                   "endians": [rng.choice(["little", "big"]) for _ in range(nd)], "cred": _cred(rng),
                                   "faults": [rng.choice(FAULTS)] * rng.choice([1, 1, 2, 3]), "cseed": rng.getrandbits(32),
                                   "fault_stage": rng.choice([0, 1])}
    # ... and faults while the token of a discovered device is fetched: exhausted timeouts, HTTP failures and API error codes on
    # getToken must surface from Discover.connect() as CloudError; one or two timeouts are retried and the device is authenticated
    for j in range(60 if quick else 22500):
        nd = rng.randint(2, 3)
        f = (FAULTS + MORE_FAULTS)[j % len(FAULTS + MORE_FAULTS)] if j < 2 * len(FAULTS + MORE_FAULTS) else rng.choice(FAULTS + MORE_FAULTS)
        yield ("e2e-connect-token", j), {"kind": "e2e-connect", "ids": [rng.getrandbits(48) | 1 for _ in range(nd)],
                                         "endians": [rng.choice(["little", "big"]) for _ in range(nd)], "cred": _cred(rng),
                                         "faults": [f] * rng.choice([1, 2, 3]), "cseed": rng.getrandbits(32), "fault_stage": 2}
    # no explicit credentials: the region argument alone decides which built-in account signs in (regions alternate within the process)
    for j in range(12 if quick else 900):
        yield ("e2e-region", j), {"kind": "e2e", "id": rng.getrandbits(48) | 1, "endian": rng.choice(["little", "big"]), "token": rng.randbytes(64),
                                  "key": rng.randbytes(32), "cred": _cred(rng), "mode": rng.choice(["broadcast", "single"]), "others": 0,
                                  "region": ["DE", "KR", "US", "DE"][j % 4]}
    for j in range(60 if quick else 37500):
        yield ("e2e", j), {"kind": "e2e", "id": rng.getrandbits(48) | 1, "endian": rng.choice(["little", "big"]), "token": rng.randbytes(64),
                           "key": rng.randbytes(32), "cred": _cred(rng), "mode": rng.choice(["broadcast", "single"]), "others": rng.randint(0, 2),
                           "silent_bad": j % 3 == 1}


def _leading_zero_ids():
    """(device id, byte order, number of leading zero bytes of its udpid) found by search with the independent udpid."""
    out = []
    for endian in ("little", "big"):
        found = {1: 0, 2: 0}
        did = 0x100000
        while (found[1] < 4 or found[2] < 1) and did < 0x100000 + 400000:
            did += 1
            u = cloudsrv.udpid(did, endian)
            if u.startswith("0000") and found[2] < 1:
                found[2] += 1
                out.append((did, endian, 2))
            elif u.startswith("00") and not u.startswith("0000") and found[1] < 4:
                found[1] += 1
                out.append((did, endian, 1))
    return out


def _scripts(L):
    import itertools
    return [list(p) + [None] for p in itertools.product(FAULTS, repeat=L)]


def _tok_case(rng, pos, size, region=None):
    acct, pw = _cred(rng) if region is None else DEFAULTS[region]
    return {"kind": "token", "account": acct, "password": pw, "region": region or rng.choice(["US", "DE", "KR"]), "use_defaults": region is not None,
            "udpid": "%032x" % rng.getrandbits(128), "pos": pos, "size": size, "lseed": rng.getrandbits(32), "stage_faults": {}}


def run_case(ctx, case):
    if case["kind"] == "e2e":
        return _e2e(ctx, case)
    if case["kind"] == "e2e-connect":
        return _e2e_connect(ctx, case)
    if case["kind"] == "concurrent-tokens":
        return _concurrent_tokens(ctx, case)
    if case["kind"] == "e2e-multi":
        return _e2e_multi(ctx, case)
    r = random.Random(case["lseed"])
    u = case["udpid"]
    match = {"udpId": u, "token": "%0128x" % r.getrandbits(512), "key": "%064x" % r.getrandbits(256)}
    others = []
    while len(others) < case["size"]:
        nu = _near(r, u)
        if nu != u and nu.lower() != u.lower():
            others.append({"udpId": nu, "token": "%0128x" % r.getrandbits(512), "key": "%064x" % r.getrandbits(256)})
    pos = case["pos"]
    if pos == "absent":
        lst = others
    elif pos == "empty-list":
        lst = []
    elif pos == "only":
        lst = [match]
    elif pos == "first":
        lst = [match] + others[:-1]
    elif pos == "last":
        lst = others[:-1] + [match]
    else:
        k = max(1, len(others) // 2)
        lst = others[:k] + [match] + others[k:]
    present = any(e is match for e in lst)
    server_pw = case["password"] + ("x" if case.get("wrong_password") else "")
    model = cloudsrv.CloudModel({case["account"]: server_pw})
    model.tokenlist_override = lambda udp: lst
    # fault scripts are applied per logical request stage: 0 login-id, 1 login, 2 getToken
    sf = {int(k): list(v) for k, v in case.get("stage_faults", {}).items()}
    stage_paths = ["/v1/user/login/id/get", "/v1/user/login", "/v1/iot/secure/getToken"]
    orig_handle = model.handle

    def handle(request):
        path = request.url.path
        st = stage_paths.index(path) if path in stage_paths else None
        if st is not None and sf.get(st):
            model.faults = [sf[st].pop(0)]
        else:
            model.faults = []
        return orig_handle(request)

    model.handle = handle

    async def go(loop):
        if case["use_defaults"]:
            cloud = NetHomePlusCloud(case["region"], get_async_client=model.client_factory())
        else:
            cloud = NetHomePlusCloud(case["region"], account=case["account"], password=case["password"], get_async_client=model.client_factory())
        await cloud.login()
        return await cloud.get_token(u)

    key = ("tok", case["account"], case["password"], u, pos, case["size"], repr(case.get("stage_faults")), case["lseed"])
    exc = None
    res = None
    try:
        res, loop = H.run_virtual(go, None)
    except CloudError as e:
        exc = e
    except Exception as e:  # noqa: BLE001
        ctx.count(key, kind="raised-other")
        ctx.violation(f"non-cloud-error/{type(e).__name__}", f"{type(e).__name__}: {e} escaped the token flow", case)
        return
    # ---- expectation from the fault scripts
    expect_fail_stage = None
    for st in range(3):
        script = list({int(k): v for k, v in case.get("stage_faults", {}).items()}.get(st, []))
        attempts = 0
        ok = False
        while attempts < 3:
            f = script.pop(0) if script else None
            attempts += 1
            if f is None:
                ok = True
                break
            if f in TIMEOUT_FAULTS:
                continue
            break
        if not ok:
            expect_fail_stage = st
            break
    if case.get("wrong_password"):
        expect_fail_stage = 1 if expect_fail_stage is None else min(expect_fail_stage, 1)
    per_stage = [sum(1 for q in model.requests if q["path"] == p) for p in stage_paths]
    bad = False
    for v in model.violations[:3]:
        bad = True
        ctx.violation(f"wire-contract/{v.split(':')[-1].strip().split(' ')[0]}", f"model server: {v}", case)
    for st, nreq in enumerate(per_stage):
        if nreq > 3:
            bad = True
            ctx.violation("too-many-attempts", f"{nreq} HTTP requests for {stage_paths[st]} (retry budget 3)", case)
    if expect_fail_stage is not None:
        if exc is None:
            bad = True
            ctx.violation("error-not-surfaced", f"flow returned {res!r} although stage {expect_fail_stage} failed per script", case)
        else:
            # attempts for the failing stage must follow the retry model
            script = list({int(k): v for k, v in case.get("stage_faults", {}).items()}.get(expect_fail_stage, []))
            exp_attempts = 0
            for f in script[:3]:
                exp_attempts += 1
                if f not in TIMEOUT_FAULTS:
                    break
            if not case.get("wrong_password") and per_stage[expect_fail_stage] != exp_attempts:
                bad = True
                ctx.violation("attempt-count", f"{per_stage[expect_fail_stage]} attempts at stage {expect_fail_stage}, retry model says {exp_attempts}", case)
        ctx.count(key, kind="bad" if bad else "cloud-error-as-expected", sample={"stage_faults": case.get("stage_faults"), "attempts": per_stage})
        return
    if not present:
        if exc is None:
            ctx.violation("foreign-credentials-returned", f"no entry matches {u} but {res!r} was returned", case, {"list_ids": [e['udpId'] for e in lst]})
            bad = True
        ctx.count(key, kind="bad" if bad else "absent-reported-as-error", sample={"udpid": u, "list_ids": [e["udpId"] for e in lst]})
        return
    if exc is not None:
        ctx.count(key, kind="bad")
        ctx.violation("valid-flow-failed", f"CloudError: {exc} although the server accepted nothing wrong and the entry is present", case,
                      {"requests": [(q["path"], q.get("bad_password")) for q in model.requests]})
        return
    if tuple(res) != (match["token"], match["key"]):
        bad = True
        whose = [e["udpId"] for e in lst if (e["token"], e["key"]) == tuple(res)]
        ctx.violation("foreign-credentials-returned", f"returned credentials belong to {whose or 'nobody'} not to {u}", case)
    ctx.count(key, kind="bad" if bad else "token-returned-correct", sample={"udpid": u, "position": pos, "list_size": len(lst)})


def _e2e(ctx, case):
    did = case["id"]
    token, key = bytes(case["token"]), bytes(case["key"])
    acct, pw = case["cred"]
    if case.get("region"):
        acct, pw = DEFAULTS[case["region"]]          # no explicit credentials: the region's built-in account is the only one the server knows
    model = cloudsrv.CloudModel({acct: pw})
    # an unknown id is answered with invented credentials (as the real service does) or - only generated for devices registered
    # under the little-endian id, which is asked for first - with an empty list
    model.invent_unknown = case.get("invent", True)
    model.registry[cloudsrv.udpid(did, case["endian"])] = (token.hex(), key.hex())
    net = H.new_net()
    ip = "10.19.0.5"
    dev = SimDevice(net, host=ip, port=6444, version=3, token=token, key=key, device_id=did, ac=ACModel({"target_temperature": 21.5}))
    # some units do not answer a handshake that carries a token they do not know (no error packet, no close): the attempt with the
    # other byte order's credentials then ends in read timeouts
    dev.silent_on_bad_token = bool(case.get("silent_bad"))
    payload = D.build_payload(ip, 6444, b"000000P0000000Q1B88C29C963BA0000", b"net_ac_63BA")
    SimHost(net, ip, 6445, [(0.05, None, D.build_reply(3, did, payload))])
    for i in range(case["others"]):
        oip = f"10.19.0.{20 + i}"
        SimDevice(net, host=oip, port=6444, version=2, device_id=1000 + i)
        SimHost(net, oip, 20086, [(0.06 + 0.01 * i, None, D.build_reply(2, 1000 + i, D.build_payload(oip, 6444, b"1" * 32, b"net_ac_0001")))])

    async def go(loop):
        kw = dict(account=acct, password=pw, get_async_client=model.client_factory(), auto_connect=True)
        if case.get("region"):
            kw = dict(region=case["region"], get_async_client=model.client_factory(), auto_connect=True)
        if case["mode"] == "single":
            d = await Discover.discover_single(ip, **kw)
            return [d] if d else []
        return await Discover.discover(**kw)

    k = ("e2e", did, case["endian"], case["mode"], case["others"], case.get("invent", True), bool(case.get("silent_bad")), case.get("region"))
    try:
        devs, loop = H.run_virtual(go, net)
    except Exception as e:  # noqa: BLE001
        ctx.count(k, kind="e2e-raised")
        ctx.violation(f"e2e-raises/{type(e).__name__}", f"{type(e).__name__}: {e}", case, {"wire": model.violations[:3]})
        return
    mine = [d for d in devs if d.ip == ip]
    bad = False
    for v in model.violations[:3]:
        bad = True
        ctx.violation(f"wire-contract/{v.split(':')[-1].strip().split(' ')[0]}", f"model server: {v}", case)
    if len(mine) != 1:
        ctx.count(k, kind="bad")
        ctx.violation("e2e-device-missing", f"{len(mine)} devices reported for the V3 host", case)
        return
    d = mine[0]
    if (d.token, d.key) != (token.hex(), key.hex()) or not d.online or d.target_temperature != 21.5:
        bad = True
        ctx.violation(f"e2e-not-authenticated/{case['endian']}", f"device registered under the {case['endian']}-endian id ended with token/key set={d.token is not None}, "
                      f"online={d.online}", case, {"udpids_requested": [q["form"].get("udpid") for q in model.requests if q["path"].endswith("getToken")]})
    accepted = [h for h in dev.handshakes if h[3]]
    if not bad and not accepted:
        bad = True
        ctx.violation("e2e-no-handshake", "device never saw a handshake with its registered token", case)
    ctx.count(k, kind="bad" if bad else "e2e-authenticated", sample={"endian": case["endian"], "mode": case["mode"], "getToken_requests":
              sum(1 for q in model.requests if q["path"].endswith("getToken"))})


def _e2e_connect(ctx, case):
    """Discover without auto-connect, then Discover.connect() each V3 device in turn; the cloud fails transiently during the
    first login.  Devices connected after the fault has cleared must be authenticated; every request must be well formed."""
    r = random.Random(case["cseed"])
    acct, pw = case["cred"]
    model = cloudsrv.CloudModel({acct: pw})
    model.invent_unknown = True
    net = H.new_net()
    devs = []
    for i, (did, endian) in enumerate(zip(case["ids"], case["endians"])):
        ip = f"10.19.1.{10 + i}"
        token, key = r.randbytes(64), r.randbytes(32)
        model.registry[cloudsrv.udpid(did, endian)] = (token.hex(), key.hex())
        devs.append((ip, did, token, key, SimDevice(net, host=ip, port=6444, version=3, token=token, key=key, device_id=did)))
        SimHost(net, ip, 6445, [(0.05 + 0.01 * i, None, D.build_reply(3, did, D.build_payload(ip, 6444, b"2" * 32, b"net_ac_%04X" % i)))])
    stage_paths = ["/v1/user/login/id/get", "/v1/user/login", "/v1/iot/secure/getToken"]
    pending = list(case["faults"])
    orig_handle = model.handle

    def handle(request):
        if pending and request.url.path == stage_paths[case["fault_stage"]]:
            model.faults = [pending.pop(0)]
        else:
            model.faults = []
        return orig_handle(request)

    model.handle = handle
    outcomes = []

    async def go(loop):
        found = await Discover.discover(auto_connect=False, account=acct, password=pw, get_async_client=model.client_factory())
        by_ip = {d.ip: d for d in found}
        for ip, did, token, key, sim in devs:
            d = by_ip.get(ip)
            if d is None:
                outcomes.append((ip, "not-discovered", None, 0))
                continue
            n0 = len(pending)
            try:
                ok = await Discover.connect(d)
                outcomes.append((ip, "connected" if ok else "connect-false", d, n0 - len(pending)))
            except CloudError as e:
                outcomes.append((ip, "CloudError", d, n0 - len(pending)))
            except Exception as e:  # noqa: BLE001
                outcomes.append((ip, "exc:" + type(e).__name__, d, n0 - len(pending)))

    k = ("e2e-connect", tuple(case["ids"]), tuple(case["endians"]), repr(case["faults"]), case["fault_stage"])
    try:
        H.run_virtual(go, net)
    except Exception as e:  # noqa: BLE001
        ctx.count(k, kind="e2e-connect-raised")
        ctx.violation(f"e2e-raises/{type(e).__name__}", f"{type(e).__name__}: {e}", case)
        return
    bad = False
    for v in model.violations[:3]:
        bad = True
        ctx.violation(f"wire-contract/{v.split(':')[-1].strip().split(' ')[0]}", f"model server: {v}", case, {"outcomes": [o[:2] for o in outcomes]})
    # a connect during which the cloud injected no fault at all must authenticate the device with its registered credentials
    for i, (ip, what, d, consumed) in enumerate(outcomes):
        if what.startswith("exc:") or what == "not-discovered":
            bad = True
            ctx.violation(f"e2e-connect/{what}", f"device {ip}: {what}", case)
            continue
        if consumed and case["fault_stage"] == 2:
            # the fault script is n copies of one fault kind, consumed from the first getToken request on: a timeout is retried
            # (RETRIES = 3 attempts per request), every other failure ends the request
            f, n = case["faults"][0], len(case["faults"])
            if f in TIMEOUT_FAULTS:
                expect = "CloudError" if (i == 0 and n >= 3) else "connected"
            else:
                expect = "CloudError"
            ctx.bump(f"connects-with-getToken-faults/{expect}")
            if what != expect:
                bad = True
                ctx.violation(f"getToken-fault-outcome/{'timeout' if f in TIMEOUT_FAULTS else 'failure'}", f"device {ip}: Discover.connect() with {consumed} x {f} on getToken ended as "
                              f"{what}, expected {expect}", case, {"outcomes": [o[:2] + (o[3],) for o in outcomes]})
            elif what == "connected":
                ip_, did, token, key, sim = devs[i]
                if (d.token, d.key) != (token.hex(), key.hex()) or not d.online:
                    bad = True
                    ctx.violation("e2e-not-authenticated-after-token-retry", f"device {ip}: token set={d.token is not None}, online={d.online}", case)
        if consumed == 0:
            ip_, did, token, key, sim = devs[i]
            ctx.bump("connects-with-healthy-cloud")
            if what != "connected" or (d.token, d.key) != (token.hex(), key.hex()) or not d.online:
                bad = True
                ctx.violation("e2e-not-authenticated-after-cloud-recovered", f"device {ip} connected while the cloud was healthy (after an earlier fault): {what}, "
                              f"token set={d.token is not None}, online={d.online}", case, {"outcomes": [o[:2] + (o[3],) for o in outcomes]})
    ctx.count(k, kind="bad" if bad else "e2e-authenticated", sample={"faults": case["faults"], "outcomes": [o[:2] for o in outcomes]})


def _concurrent_tokens(ctx, case):
    import asyncio
    r = random.Random(case["cseed"])
    acct, pw = case["cred"]
    model = cloudsrv.CloudModel({acct: pw})
    model.list_all = True
    ids = ["%032x" % r.getrandbits(128) for _ in range(case["n"])]
    for u in ids + ["%032x" % r.getrandbits(128) for _ in range(2)]:
        model.registry[u] = ("%0128x" % r.getrandbits(512), "%064x" % r.getrandbits(256))
    if case["latency"]:
        orig = model.handle

        async def slow_handler(request):
            await asyncio.sleep(case["latency"])
            return orig(request)

        def factory(*a, **kw):
            import httpx
            return httpx.AsyncClient(transport=httpx.MockTransport(slow_handler))
    else:
        factory = model.client_factory()

    async def go(loop):
        cloud = NetHomePlusCloud("US", account=acct, password=pw, get_async_client=factory)
        await cloud.login()
        return await asyncio.gather(*[cloud.get_token(u) for u in ids], return_exceptions=True)

    k = ("concurrent-tokens", case["cseed"], case["n"], case["latency"])
    try:
        res, loop = H.run_virtual(go, None)
    except Exception as e:  # noqa: BLE001
        ctx.count(k, kind="bad")
        ctx.violation(f"non-cloud-error/{type(e).__name__}", f"{type(e).__name__}: {e} in concurrent token lookups", case)
        return
    bad = False
    for v in model.violations[:3]:
        bad = True
        ctx.violation(f"wire-contract/{v.split(':')[-1].strip().split(' ')[0]}", f"model server: {v}", case)
    for u, got in zip(ids, res):
        if isinstance(got, BaseException):
            bad = True
            ctx.violation("valid-flow-failed", f"concurrent lookup of {u} failed: {type(got).__name__}: {got}", case)
        elif tuple(got) != model.registry[u]:
            bad = True
            whose = [kk for kk, vv in model.registry.items() if vv == tuple(got)]
            ctx.violation("foreign-credentials-returned", f"concurrent lookup of {u} returned the credentials of {whose or 'nobody'}", case)
    ctx.count(k, kind="bad" if bad else "token-returned-correct", sample={"concurrent_lookups": case["n"], "latency": case["latency"]})


def _e2e_multi(ctx, case):
    r = random.Random(case["cseed"])
    acct, pw = case["cred"]
    model = cloudsrv.CloudModel({acct: pw})
    model.invent_unknown = True
    model.list_all = True
    net = H.new_net()
    devs = []
    for i, (did, endian) in enumerate(zip(case["ids"], case["endians"])):
        ip = f"10.19.2.{10 + i}"
        token, key = r.randbytes(64), r.randbytes(32)
        model.registry[cloudsrv.udpid(did, endian)] = (token.hex(), key.hex())
        devs.append((ip, did, token, key, SimDevice(net, host=ip, port=6444, version=3, token=token, key=key, device_id=did,
                                                    ac=ACModel({"target_temperature": 19.5}))))
        SimHost(net, ip, 6445, [(0.05 + 0.001 * i, None, D.build_reply(3, did, D.build_payload(ip, 6444, b"3" * 32, b"net_ac_%04X" % i)))])

    async def go(loop):
        return await Discover.discover(auto_connect=True, account=acct, password=pw, get_async_client=model.client_factory())

    k = ("e2e-multi", tuple(case["ids"]), tuple(case["endians"]))
    try:
        found, loop = H.run_virtual(go, net)
    except Exception as e:  # noqa: BLE001
        ctx.count(k, kind="bad")
        ctx.violation(f"e2e-raises/{type(e).__name__}", f"{type(e).__name__}: {e}", case, {"wire": model.violations[:3]})
        return
    by_ip = {d.ip: d for d in found}
    bad = False
    for v in model.violations[:3]:
        bad = True
        ctx.violation(f"wire-contract/{v.split(':')[-1].strip().split(' ')[0]}", f"model server: {v}", case)
    for ip, did, token, key, sim in devs:
        d = by_ip.get(ip)
        if d is None or (d.token, d.key) != (token.hex(), key.hex()) or not d.online:
            bad = True
            ctx.violation("e2e-not-authenticated/multi", f"device {ip} (one of {len(devs)} V3 devices discovered together) ended with "
                          f"{'no device' if d is None else ('own creds' if (d.token, d.key) == (token.hex(), key.hex()) else 'foreign or no creds')}, "
                          f"online={getattr(d, 'online', None)}", case)
    ctx.count(k, kind="bad" if bad else "e2e-authenticated", sample={"devices": len(devs), "endians": case["endians"]})
