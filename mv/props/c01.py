"""C01 - end-to-end fidelity: applied state reaches the device; device state is what any client's refresh reports."""
from __future__ import annotations

import asyncio
import random

from .. import gen
from .. import harness as H
from ..ref import acframe, acstate
from ..simdev import ACModel, SimDevice

from msmart.device import AirConditioner as AC

ID = "C01"
LEVEL = "exploration"
RULE = ("e2e case = (protocol version, token/key (bytes or hex) / device id, device start state, requested state incl. optional display "
        "toggle, segmentation of the device's reply stream {one packet per segment, all coalesced, byte-by-byte, random cuts, one packet "
        "split}, 0..3 unsolicited/duplicate state frames rendering the device's current state before/after the reply): client A (which on V3 may call authenticate() again on its live connection before/after) applies the "
        "state, then a different fresh instance B on a fresh connection refreshes. Oracle: the simulated device's state (reference decode "
        "of the control body that arrived after V2 unwrap / V3 decrypt) equals the state assigned through A's public setters, and B's "
        "public attributes equal the device state. Concurrent case = 2..4 client instances issuing mixed apply/refresh against one device "
        "with random per-message latencies; every applied state embeds a unique version (fan, humidity) and every refresh must report a "
        "version that was current at some instant between its call and its return (register interval check); the device may push an unsolicited report of every state change to the other open connections with its own latency, and bytes that catch up with delayed bytes arrive coalesced in one segment. Abandoned case = a refresh()/apply() given up by its caller (deadline 0.2-1.3 s) while the client reconnects, re-authenticates or waits for a slow reply; after another controller changed the device the same object's refresh() must report the device's state. Re-apply case = A applies X, a second controller changes the device to Y, A applies X again (with or without a refresh in between): the device must end in X. distinct = distinct case "
        "parameters; all non-trivial")
ASSUMPTIONS = ["unsolicited frames never describe a stale state", "values outside the stated domains (e.g. 20.3 C, fan 200) are not generated",
               "oracle choices of C10/C11 for bit positions apply",
               "concurrent sub-workload: TCP delivers each connection's bytes in order (FIFO latency model)"]
# reach anchors: only entry points this check calls itself or callbacks the event loop needs (robust against internal refactors);
# that the mechanism was really exercised is demanded through MIN_NONTRIVIAL / MIN_HIST outcome counts
ANCHORS = ["device.py:AirConditioner.apply", "device.py:AirConditioner.refresh", "base_device.py:Device._send_command", "lan.py:LAN.send",
           "lan.py:_LanProtocolV3.data_received"]
MIN_NONTRIVIAL = {"quick": 1200, "thorough": 60000}
MIN_HIST = {"quick": {"e2e-ok": 900, "concurrent-refresh-checked": 300}, "thorough": {"e2e-ok": 40000, "concurrent-refresh-checked": 20000}}
WORKERS = {"quick": 1, "thorough": 16}
EXHAUSTIVE = {t: ["every value of every settable field (others random) on both protocol versions", "boundary device ids x both versions",
                  "all segmentation classes x both versions"] for t in ("quick", "thorough")}

IDS = [0, 1, 0xFF, 0x100, 0xFFFF, 0x10000, 2 ** 32 - 1, 2 ** 32, 2 ** 48 - 1, 2 ** 48, 2 ** 63, 2 ** 64 - 1]
SEGS = ["aligned", "coalesced", "bytewise", "random", "split-one"]


def _case(rng, st, version=None, seg=None, did=None):
    return {"kind": "e2e", "version": version or rng.choice([2, 3]), "token": rng.randbytes(64), "key": rng.randbytes(32),
            "key_form": rng.choice(["bytes", "hex"]), "id": did if did is not None else rng.choice(IDS + [rng.getrandbits(48)]),
            "start": gen.random_state(rng), "state": st, "toggle": rng.random() < 0.3, "start_display": rng.random() < 0.5,
            "seg": seg or rng.choice(SEGS), "before": rng.randint(0, 3) if rng.random() < 0.5 else 0,
            "after": rng.randint(0, 3) if rng.random() < 0.5 else 0, "sseed": rng.getrandbits(32),
            "report_length": rng.choice([23, 23, 24, 30]), "check": rng.choice(["crc", "sum"]),
            "reauth": rng.choice([None, None, "before-apply", "after-apply", "both"]),
            "aliases": rng.random() < 0.2, "ints": rng.random() < 0.25}


def generate(ctx, rng):
    quick = ctx.tier == "quick"
    i = 0
    for f, st in gen.per_field_sweeps(rng):
        i += 1
        yield ("sweep", i), _case(rng, st, version=2 + (i % 2))
    for did in IDS:
        for version in (2, 3):
            i += 1
            yield ("id", i), _case(rng, gen.random_state(rng), version=version, did=did)
    for seg in SEGS:
        for version in (2, 3):
            for k in range(8):
                i += 1
                c = _case(rng, gen.random_state(rng), version=version, seg=seg)
                c["before"], c["after"] = k % 4, (k // 2) % 4
                yield ("seg", i), c
    for row in gen.pairwise(rng, gen.PAIRWISE_DOMAINS):
        i += 1
        yield ("pw", i), _case(rng, row)
    # a chatty device: a burst of dozens of unsolicited reports travels together with the reply
    for burst in (17, 33, 40, 70, 130, 260):
        for version in (2, 3):
            for where in ("before", "after"):
                i += 1
                c = _case(rng, gen.random_state(rng), version=version, seg=rng.choice(["aligned", "coalesced"] if version == 3 else ["aligned"]))
                c["before"], c["after"] = (burst, 0) if where == "before" else (1, burst)
                c["reauth"] = None
                yield ("burst", i), c
                # ... the same burst made of reports that say nothing about the settings (a type-5 0xA1 report), after which
                # another controller changes the unit and client A itself refreshes
                # (placed where the unchanged transport provably hands the reply to the exchange that asked for it: behind the
                # reply, or ahead of it inside the same V3 segment; a report of another kind ahead of the reply in a segment of its
                # own is what LAN.send returns as "the" response - DESIGN 4, observation 2 - and is not judged)
                i += 1
                c = dict(c, burst_kind="other", a_refresh=gen.random_state(rng), sseed=rng.getrandbits(32))
                if where == "before":
                    if version != 3:
                        continue
                    c["seg"] = "coalesced"
                else:
                    c["before"] = 0
                yield ("burst-other", i), c
    # the same object used the way a polling integration uses it
    for j in range(90 if quick else 30000):
        i += 1
        c = _case(rng, gen.random_state(rng))
        c["seg"] = rng.choice(["aligned", "coalesced"]) if c["version"] == 3 else "aligned"
        c["before"] = c["after"] = 0
        c["reauth"] = None
        which = j % 3
        if which == 0:
            # a refresh of the object is still waiting for the unit when the user changes the settings and applies them
            c["overlap_refresh"] = rng.choice([0.2, 0.3, 0.7])
        elif which == 1:
            # the unit closes the idle connection in an orderly way between two operations; then another state is applied
            c["idle_close"] = rng.choice(["fin", "fin", "rst"])
            c["then_apply"] = gen.random_state(rng)
        else:
            # the object was created in start-up code, before the event loop ran
            c["preconstructed"] = True
        yield ("usage", i), c
    for _ in range(1300 if quick else 450000):
        i += 1
        yield ("rnd", i), _case(rng, gen.random_state(rng))
    for j in range(90 if quick else 30000):
        yield ("conc", j), {"kind": "concurrent", "version": rng.choice([2, 3]), "nclients": rng.randint(2, 4),
                            "nops": rng.randint(6, 14), "cseed": rng.getrandbits(32), "unsolicited": rng.random() < 0.5,
                            "push": j % 3 != 0, "coalesce": j % 2 == 0}
    # a refresh that its caller abandons (deadline) while the client is reconnecting, re-authenticating or waiting for the reply;
    # afterwards the device changes and the same client object refreshes again
    for j in range(60 if quick else 20000):
        version = rng.choice([2, 3])
        yield ("abandoned", j), {"kind": "abandoned", "version": version, "phase": rng.choice(["connect", "reply"] + (["handshake"] if version == 3 else [])),
                                 "deadline": rng.choice([0.2, 0.5, 1.3]), "x": gen.random_state(rng), "y": gen.random_state(rng), "z": gen.random_state(rng),
                                 "cseed": rng.getrandbits(32), "op": rng.choice(["refresh", "refresh", "apply"])}
    # the same state applied again after another controller changed the device in between (no refresh in between)
    for j in range(40 if quick else 15000):
        yield ("reapply", j), {"kind": "reapply", "version": rng.choice([2, 3]), "x": gen.random_state(rng), "y": gen.random_state(rng),
                               "refresh_between": rng.random() < 0.3, "rounds": rng.randint(1, 3), "cseed": rng.getrandbits(32),
                               "push": rng.random() < 0.5}


def _cut(stream_packets, seg, r):
    """Return list of segments and whether any cut falls inside a packet / whether any segment holds > 1 packet."""
    stream = b"".join(stream_packets)
    bounds = []
    pos = 0
    for p in stream_packets:
        pos += len(p)
        bounds.append(pos)
    n = len(stream)
    if seg == "aligned":
        cuts = bounds[:-1]
    elif seg == "coalesced":
        cuts = []
    elif seg == "bytewise":
        cuts = list(range(1, n))
    elif seg == "random":
        cuts = sorted(r.sample(range(1, n), min(n - 1, r.randint(1, 12))))
    else:
        k = r.randrange(len(stream_packets))
        lo = bounds[k - 1] if k else 0
        cuts = sorted(set(bounds[:-1]) | {r.randint(lo + 1, bounds[k] - 1)})
    edges = [0] + cuts + [n]
    segs = [stream[a:b] for a, b in zip(edges, edges[1:])]
    splits = any(c not in bounds for c in cuts)
    coalesces = any(sum(1 for b in bounds if a < b <= e) > 1 for a, e in zip(edges, edges[1:]))
    return segs, splits, coalesces


def run_case(ctx, case):
    if case["kind"] == "concurrent":
        return _concurrent(ctx, case)
    if case["kind"] == "reapply":
        return _reapply(ctx, case)
    if case["kind"] == "abandoned":
        return _abandoned(ctx, case)
    version = case["version"]
    token, key = bytes(case["token"]), bytes(case["key"])
    key_arg = key.hex() if case["key_form"] == "hex" else key
    tok_arg = token.hex() if case["key_form"] == "hex" else token
    st = case["state"]
    r = random.Random(case["sseed"])
    net = H.new_net()
    start = {**acstate.default_state(), **{k: v for k, v in case["start"].items() if k in acstate.FIELDS}, "display_on": case["start_display"]}
    model = ACModel(start)
    model.report_length = case["report_length"]
    model.report_check = case["check"]
    dev = SimDevice(net, version=version, token=token, key=key, device_id=case["id"], ac=model, seed=case["sseed"])
    # the segments of one reply are a network effect on an ordered byte stream: the bytes of a later reply can never arrive
    # between (or before) the remaining segments of an earlier one
    dev.fifo = True
    info = {"splits": False, "coalesces": False, "exchanges": 0}

    def on_exchange(conn, req, packets, meta):
        info["exchanges"] += 1
        info.setdefault("ids", set()).add(meta["v2"]["device_id"])
        if case.get("burst_kind") == "other":
            def unsolicited():
                return acframe.build(bytes([0xA1]) + r.randbytes(21), 5)
        else:
            def unsolicited():
                return model.state_frame(r.choice([3, 4, 5]))
        extra_b = [dev.wrap(conn, unsolicited()) for _ in range(case["before"])]
        extra_a = [dev.wrap(conn, unsolicited()) for _ in range(case["after"])]
        allp = extra_b + list(packets) + extra_a
        if not allp:
            return []
        segs, splits, coalesces = _cut(allp, case["seg"], r)
        info["splits"] |= splits
        info["coalesces"] |= coalesces
        late = 0.0
        if case.get("overlap_refresh") and not info.get("slowed") and acframe.parse_command(req)["body"][0] == 0x41:
            info["slowed"] = True
            late = case["overlap_refresh"]          # the unit is slow to answer this one query
        return [(late + 0.001 * i, s) for i, s in enumerate(segs)]

    dev.on_exchange = on_exchange

    pre = None
    if case.get("preconstructed"):
        # start-up code of an application: the main thread has no event loop yet (asyncio.run() will make one later)
        import warnings
        asyncio.set_event_loop_policy(None)
        try:
            with warnings.catch_warnings():
                warnings.simplefilter("ignore")
                pre = AC(ip=dev.host, port=dev.port, device_id=dev.device_id)
        except Exception as e:  # noqa: BLE001
            ctx.count(("pre", case["sseed"]), kind="e2e-raised")
            ctx.violation(f"e2e-raises/{type(e).__name__}", f"constructing the device object before the event loop runs: {type(e).__name__}: {e}", case)
            return
        finally:
            asyncio.set_event_loop(None)

    async def go(loop):
        a = pre if pre is not None else AC(ip=dev.host, port=dev.port, device_id=dev.device_id)
        if version == 3:
            await a.authenticate(tok_arg, key_arg)
        if version == 3 and case.get("reauth") in ("before-apply", "both"):
            await a.authenticate(tok_arg, key_arg)      # an application re-running its set-up on the live (quiescent) connection
        poll = None
        if case.get("overlap_refresh"):
            poll = asyncio.ensure_future(a.refresh())
            await asyncio.sleep(0.1)
        gen.apply_to_ac(a, st, aliases=bool(case.get("aliases")), ints=bool(case.get("ints")))
        await a.apply()
        if poll is not None:
            await poll
        dev_after_apply = dict(model.state)
        n_controls = len(model.controls)
        if case.get("idle_close"):
            await asyncio.sleep(5.0)
            for c in dev.conns:
                if not c.closed:
                    c.emit([(0, case["idle_close"])])
            await asyncio.sleep(1.0)
            gen.apply_to_ac(a, case["then_apply"])
            await a.apply()
            info["second"] = (dict(model.state), len(model.controls))
        toggled = None
        a_reads = None
        if version == 3 and case.get("reauth") in ("after-apply", "both"):
            await asyncio.sleep(2.0)      # let every byte of the previous exchange land: a handshake racing in-flight data is not judged
            await a.authenticate(tok_arg, key_arg)
            await a.refresh()
            a_reads = (a.online, int(a.fan_speed), a.target_humidity, model.state["fan"], model.state["target_humidity"])
        if case.get("a_refresh"):
            model.state.update(gen.expected_device_state(case["a_refresh"]))      # another controller changes the unit
            await asyncio.sleep(2.0)      # the reports trailing the previous reply have all landed (in-flight frames: observation 2)
            await a.refresh()
            a_reads2 = (a.online, H.public_state(a), dict(model.state))
        else:
            a_reads2 = None
        if case["toggle"]:
            before_disp = model.state["display_on"]
            await a.toggle_display()
            toggled = (before_disp, model.state["display_on"])
        b = AC(ip=dev.host, port=dev.port, device_id=dev.device_id)
        if version == 3:
            await b.authenticate(tok_arg, key_arg)
        await b.refresh()
        return dev_after_apply, n_controls, toggled, b.online, H.public_state(b), dict(model.state), a_reads, a_reads2

    key_ = ("e2e", version, case["id"], gen.state_key(st), case["seg"], case["before"], case["after"], case["toggle"], case["sseed"])
    segclass = "v2-segment-splits-packet" if (version == 2 and info["splits"]) else None
    try:
        (dev_after_apply, n_controls, toggled, online, got, dev_final, a_reads, a_reads2), loop = H.run_virtual(go, net)
    except Exception as e:  # noqa: BLE001
        ctx.count(key_, kind="e2e-raised")
        segclass = "v2-segment-splits-packet" if (version == 2 and info["splits"]) else None
        ctx.violation(segclass or f"e2e-raises/{type(e).__name__}", f"{type(e).__name__}: {e}", case)
        return
    segclass = "v2-segment-splits-packet" if (version == 2 and info["splits"]) else None
    bad = False
    # --- apply half: the device ended up in the applied state
    exp = gen.expected_device_state(st)
    diffs = {f: (exp[f], dev_after_apply[f]) for f in exp if dev_after_apply[f] != exp[f]}
    # (with a refresh of the same object in flight the two exchanges may take each other's replies - the library does not
    # correlate them - and the control command may be retransmitted: only the state the unit ends up in is judged there)
    if (n_controls != 1 and not (case.get("overlap_refresh") and 1 <= n_controls <= 3)) or diffs:
        bad = True
        ctx.violation(f"apply-mismatch/{sorted(diffs)[0] if diffs else 'control-count'}",
                      f"after apply() the device holds {diffs or n_controls} (V{version})", case, {"rejected": model.rejected[:2]})
    if "second" in info:
        ctx.bump("apply-after-orderly-close-checked")
        exp2 = gen.expected_device_state(case["then_apply"])
        d2 = {f: (exp2[f], info["second"][0][f]) for f in exp2 if info["second"][0][f] != exp2[f]}
        if d2 or info["second"][1] != 2:
            bad = True
            ctx.violation(f"apply-mismatch/{sorted(d2)[0] if d2 else 'control-count'}", f"apply() after the unit closed the idle connection ({case['idle_close']}): "
                          f"the device holds {d2 or info['second'][1]} (V{version})", case)
    if info.get("ids", set()) - {case["id"]}:
        bad = True
        ctx.violation("device-id-on-wire", f"packets carried device id(s) {sorted(info['ids'])} instead of {case['id']}", case)
    if a_reads is not None and (not a_reads[0] or a_reads[1:3] != a_reads[3:5]) and not segclass:
        bad = True
        ctx.violation("refresh-after-reauthentication", f"client A after a second authenticate(): online={a_reads[0]}, reads fan/humidity {a_reads[1:3]}, "
                      f"device has {a_reads[3:5]}", case)
    if toggled is not None and toggled[0] == toggled[1]:
        bad = True
        # (on V2 with a reply cut inside a packet the left-over pieces of the previous reply are what the next exchange reads first -
        # the recorded finding: V2 has no stream reassembly - so whether the toggle gets out depends on when they arrive)
        ctx.violation(segclass or "toggle-not-received", "toggle_display() did not reach the device", case)
    def differences(d, got):
        want = {"power": d["power"], "mode": d["mode"], "target_temperature": d["target_temperature"], "fan": d["fan"], "swing": d["swing"],
                "eco": d["eco"], "turbo": d["turbo"], "sleep": d["sleep"], "fahrenheit": d["fahrenheit"], "freeze_protection": d["freeze_protection"],
                "follow_me": d["follow_me"], "purifier": d["purifier"], "target_humidity": d["target_humidity"], "aux": d["aux"],
                "display_on": d["display_on"]}
        rd = {}
        for f, w in want.items():
            g = got[f]
            g = int(g) if f in ("mode", "fan", "swing", "aux") and g is not None else g
            if g != w:
                rd[f] = (w, g)
        return rd

    # --- client A's own refresh after another controller changed the unit (its replies travel with a burst of unrelated reports)
    if a_reads2 is not None:
        ctx.bump("own-refresh-behind-a-burst-checked")
        rd = differences(a_reads2[2], a_reads2[1])
        if not a_reads2[0] or rd:
            bad = True
            ctx.violation(segclass or f"refresh-mismatch/{sorted(rd)[0] if rd else 'offline'}", f"client A's refresh behind {case['before']}+{case['after']} unrelated reports: "
                          f"online={a_reads2[0]}, differences {rd} (V{version}, segmentation {case['seg']})", case)
    # --- refresh half: B reports the device state
    rd = differences(dev_final, got)
    if not online or rd:
        bad = True
        mech = segclass or f"refresh-mismatch/{sorted(rd)[0] if rd else 'offline'}"
        ctx.violation(mech, f"fresh client B reports online={online}, differences {rd} (V{version}, segmentation {case['seg']})", case,
                      {"splits_packet": info["splits"], "coalesces": info["coalesces"]})
    tag = f"{'v3' if version == 3 else 'v2'}-{case['seg']}"
    ctx.count(key_, kind="e2e-bad" if bad else "e2e-ok", sample={k: case[k] for k in ("version", "seg", "before", "after", "toggle", "state")})
    ctx.bump("seg:" + tag)


def _concurrent(ctx, case):
    version = case["version"]
    r = random.Random(case["cseed"])
    token, key = r.randbytes(64), r.randbytes(32)
    net = H.new_net()
    model = ACModel()
    dev = SimDevice(net, version=version, token=token, key=key, device_id=0xC01, ac=model, seed=case["cseed"])
    dev.fifo = True
    dev.coalesce = bool(case.get("coalesce"))
    dev.push_reports = bool(case.get("push"))
    dev.push_latency = lambda: r.choice([0.0, 0.05, 0.4, 0.9, 1.6])

    def on_exchange(conn, req, packets, meta):
        lat = r.choice([0.0, 0.01, 0.2, 0.7, 1.3])
        acts = [(lat, p) for p in packets]
        if case["unsolicited"] and r.random() < 0.4:
            acts.append((lat + r.choice([0.0, 0.05, 0.4]), "unsolicited"))
        out = []
        for dly, what in acts:
            if what == "unsolicited":
                # rendered when it is sent: schedule a callback that renders then
                conn.loop.call_later(dly, lambda c=conn: (not c.closed) and c.emit([(0, dev.wrap(c, model.state_frame(5)))]))
            else:
                out.append((dly, what))
        return out

    dev.on_exchange = on_exchange
    log = []           # (client, op, t0, t1, observed version or applied version)
    versions = {}      # version id -> (fan, humidity)
    counter = [0]

    def next_version():
        counter[0] += 1
        v = counter[0]
        return v, 1 + (v % 100), (v // 100) % 101

    async def client(loop, idx, nops):
        ac = AC(ip=dev.host, port=dev.port, device_id=dev.device_id)
        if version == 3:
            await ac.authenticate(token, key)
        for _ in range(nops):
            await asyncio.sleep(r.choice([0.0, 0.03, 0.3, 0.9]))
            if r.random() < 0.45:
                v, fan, hum = next_version()
                st = gen.random_state(r)
                st["fan"], st["target_humidity"] = fan, hum
                gen.apply_to_ac(ac, st)
                t0 = loop.time()
                await ac.apply()
                log.append((idx, "apply", t0, loop.time(), (fan, hum)))
            else:
                t0 = loop.time()
                await ac.refresh()
                log.append((idx, "refresh", t0, loop.time(), (int(ac.fan_speed), ac.target_humidity) if ac.online else None))

    async def go(loop):
        await asyncio.gather(*[client(loop, i, case["nops"]) for i in range(case["nclients"])])

    key_ = ("conc", case["cseed"], version)
    try:
        H.run_virtual(go, net)
    except Exception as e:  # noqa: BLE001
        ctx.count(key_, kind="concurrent-raised")
        ctx.violation(f"concurrent-raises/{type(e).__name__}", f"{type(e).__name__}: {e}", case)
        return
    # validity intervals of (fan, humidity) at the device
    init = (model_initial_fan(), 40)
    timeline = [(-1.0, (acstate.default_state()["fan"], acstate.default_state()["target_humidity"]))]
    for t, ver, st in dev.version_log:
        timeline.append((t, (st["fan"], st["target_humidity"])))
    bad = 0
    for idx, op, t0, t1, obs in log:
        if op != "refresh":
            continue
        ctx.bump("concurrent-refresh-checked")
        if obs is None:
            bad += 1
            ctx.violation("concurrent-refresh-offline", f"client {idx} refresh [{t0:.3f},{t1:.3f}] saw no response", case)
            continue
        ok = False
        for i, (ts, val) in enumerate(timeline):
            te = timeline[i + 1][0] if i + 1 < len(timeline) else float("inf")
            if val == obs and ts <= t1 + 1e-9 and te >= t0 - 1e-9:
                ok = True
                break
        if not ok:
            # A frame (pushed report, or the late response to an earlier request that had been satisfied by a report) that was
            # rendered BEFORE this refresh started but was still in flight and reached the client during the exchange is stale
            # on arrival.  The statement's unsolicited/duplicated responses are read conservatively as describing the device's
            # current state, so a refresh whose result is exactly such a frame is not judged (counted), see DESIGN.md section 4.
            inflight = [p for p in dev.pushes + dev.deliveries
                        if p["t_render"] < t0 - 1e-9 and p["t_deliver"] >= t0 - 1e-9 and p["t_deliver"] <= t1 + 1e-6
                        and (p["state"]["fan"], p["state"]["target_humidity"]) == obs]
            if inflight:
                ctx.skip("refresh answered by a frame rendered before it started and still in flight (not judged)")
                continue
            bad += 1
            ctx.violation("stale-or-foreign-read", f"client {idx} refresh [{t0:.3f},{t1:.3f}] reported version {obs} that was not current in that interval",
                          case, {"timeline": timeline[-8:]})
    # every apply must have reached the device (its version appears in the timeline)
    applied = {val for _, val in timeline}
    for idx, op, t0, t1, val in log:
        if op == "apply" and val not in applied:
            bad += 1
            ctx.violation("concurrent-apply-lost", f"client {idx} apply of version {val} never reached the device", case)
    ctx.count(key_, kind="concurrent-ok" if not bad else "concurrent-bad",
              sample={"version": version, "clients": case["nclients"], "ops": len(log), "state_changes": len(dev.version_log)})


def _abandoned(ctx, case):
    version = case["version"]
    r = random.Random(case["cseed"])
    token, key = r.randbytes(64), r.randbytes(32)
    net = H.new_net()
    model = ACModel({k: v for k, v in case["x"].items() if k in acstate.FIELDS})
    dev = SimDevice(net, version=version, token=token, key=key, device_id=0xC01B, ac=model, seed=case["cseed"])
    slow = {"on": False}
    dev.on_exchange = lambda conn, req, packets, meta: ([(5.0, p) for p in packets] if slow["on"] else None)

    async def go(loop):
        a = AC(ip=dev.host, port=dev.port, device_id=dev.device_id)
        b = AC(ip=dev.host, port=dev.port, device_id=dev.device_id)
        if version == 3:
            await a.authenticate(token, key)
            await b.authenticate(token, key)
        await a.refresh()
        phase = case["phase"]
        if phase in ("connect", "handshake"):
            for c in dev.conns:
                if not c.closed and c is not None:
                    c.emit([(0, "fin")])
            await asyncio.sleep(0.01)
            if phase == "connect":
                dev.connect_script = ["hang"]
        else:
            slow["on"] = True
        if case["op"] == "apply":
            gen.apply_to_ac(a, case["y"])
        try:
            await asyncio.wait_for(a.refresh() if case["op"] == "refresh" else a.apply(), case["deadline"])
            first = "returned"
        except (TimeoutError, asyncio.TimeoutError):
            first = "abandoned"
        slow["on"] = False
        dev.connect_script = []
        await asyncio.sleep(7.0)
        # another controller changes the device; the first client looks again
        gen.apply_to_ac(b, case["z"])
        await b.apply()
        await a.refresh()
        return first, a.online, H.public_state(a), dict(model.state)

    k = ("abandoned", version, case["phase"], case["deadline"], case["op"], case["cseed"])
    try:
        (first, online, got, d), loop = H.run_virtual(go, net)
    except Exception as e:  # noqa: BLE001
        ctx.count(k, kind="abandoned-raised")
        ctx.violation(f"abandoned-raises/{type(e).__name__}", f"{type(e).__name__}: {e}", case)
        return
    rd = {}
    for f in ("power", "mode", "target_temperature", "fan", "swing", "eco", "turbo", "sleep", "target_humidity"):
        g = got[f]
        g = int(g) if f in ("mode", "fan", "swing") and g is not None else g
        if g != d[f]:
            rd[f] = (d[f], g)
    bad = (not online) or bool(rd)
    ctx.count(k, kind="e2e-bad" if bad else "e2e-ok", sample={"version": version, "phase": case["phase"], "deadline": case["deadline"], "first": first})
    ctx.bump("abandoned-operation:" + first)
    if bad:
        ctx.violation("refresh-after-abandoned-operation", f"after a {case['op']}() abandoned by its caller during {case['phase']} (V{version}), a later refresh() "
                      f"reports online={online}, differences {rd}", case)


def model_initial_fan():
    return acstate.default_state()["fan"]


def _reapply(ctx, case):
    """A applies X, controller B changes the device to Y, A applies X again: the device must end in X every time."""
    version = case["version"]
    r = random.Random(case["cseed"])
    token, key = r.randbytes(64), r.randbytes(32)
    net = H.new_net()
    model = ACModel()
    dev = SimDevice(net, version=version, token=token, key=key, device_id=0xC01A, ac=model, seed=case["cseed"])
    dev.push_reports = bool(case.get("push"))
    x, y = case["x"], case["y"]
    out = []

    async def go(loop):
        a = AC(ip=dev.host, port=dev.port, device_id=dev.device_id)
        b = AC(ip=dev.host, port=dev.port, device_id=dev.device_id)
        if version == 3:
            await a.authenticate(token, key)
            await b.authenticate(token, key)
        for rnd in range(case["rounds"]):
            gen.apply_to_ac(a, x)
            await a.apply()
            out.append(("a-applies-x", rnd, dict(model.state)))
            gen.apply_to_ac(b, y)
            await b.apply()
            out.append(("b-applies-y", rnd, dict(model.state)))
            if case["refresh_between"]:
                await a.refresh()
            gen.apply_to_ac(a, x)
            await a.apply()
            out.append(("a-applies-x-again", rnd, dict(model.state)))

    k = ("reapply", version, gen.state_key(x), gen.state_key(y), case["refresh_between"], case["rounds"], case.get("push"))
    try:
        H.run_virtual(go, net)
    except Exception as e:  # noqa: BLE001
        ctx.count(k, kind="reapply-raised")
        ctx.violation(f"reapply-raises/{type(e).__name__}", f"{type(e).__name__}: {e}", case)
        return
    bad = False
    for step, rnd, st in out:
        want = gen.expected_device_state(y if step == "b-applies-y" else x)
        diffs = {f: (want[f], st[f]) for f in want if st[f] != want[f]}
        if diffs:
            bad = True
            ctx.violation("reapplied-state-not-sent", f"round {rnd} step {step}: device holds {diffs} (V{version}, refresh between={case['refresh_between']})", case)
            break
    ctx.count(k, kind="e2e-bad" if bad else "e2e-ok", sample={"version": version, "rounds": case["rounds"], "refresh_between": case["refresh_between"]})
