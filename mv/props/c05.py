"""C05 - V3 encrypted packet codec: interoperable for every length, tamper-evident."""
from __future__ import annotations

from .. import harness as H
from ..ref import v2, v3
from ..ref.prim import RefError
from ..simdev import SimDevice

from msmart.lan import LAN, ProtocolError, _LanProtocolV3

ID = "C05"
LEVEL = "fault_enumeration"
RULE = ("encode: _encode_encrypted_request(counter, payload) for every payload length 0..300 (all 16 residues), random 32-byte "
        "keys and counters, parsed by the independent reference (marker, size == len-8, type 6, pad nibble, AES-CBC zero IV, SHA-256 "
        "tag over header+plaintext, counter, minimal padding); decode: reference-built encrypted responses for every length through "
        "_process_packet must yield exactly the payload, and through the connection's receive path (data_received in 1-4 segments, then read(); also responses searched to contain 83 70 inside ciphertext/tag, cut around that position) together with a following response; wire: both directions through LAN.send on an authenticated simulated V3 "
        "connection; tamper (the genuine response is accepted on the same protocol object before and between the altered copies): every single-bit flip of header, ciphertext and tag of a response (one length per residue) must give "
        "ProtocolError from _process_packet (at LAN.send level half of the runs alter only the FIRST reply - an intact answer to a retransmission must not turn the alteration into a success; type-nibble flips judged at LAN.send level, where marker/size/magic-byte flips may also end in "
        "TimeoutError because no packet is ever framed). distinct = (kind, length, counter/bit); non-trivial = all")
ASSUMPTIONS = ["mv/ref/v3.py is a correct reading of the V3 packet overview",
               "_encode_encrypted_request/_process_packet/_local_key are the names pinned by the repository's tests",
               "tamper through LAN.send: flips of the bytes a framer may key on (marker, size, fixed magic byte) may end in TimeoutError (no packet is ever framed); "
               "through _process_packet every flip must give ProtocolError"]
ANCHORS = ["lan.py:_LanProtocolV3._encode_encrypted_request", "lan.py:_LanProtocolV3._decode_encrypted_response",
           "lan.py:_LanProtocolV3._process_packet", "lan.py:LAN.send"]
MIN_NONTRIVIAL = {"quick": 8000, "thorough": 100000}
WORKERS = {"quick": 1, "thorough": 16}
EXHAUSTIVE = {"quick": ["payload lengths 0..300 encode and decode", "all single-bit flips of a response for each of the 16 padding residues (direct)"],
              "thorough": ["payload lengths 0..300 x 12 keys", "counters 0..4095 x 3 keys", "all single-bit flips, direct and through LAN.send, for each residue"]}

Q_COUNTERS = [0, 1, 255, 256, 4094, 4095]


def generate(ctx, rng):
    quick = ctx.tier == "quick"
    nkeys = 1 if quick else 12
    for L in range(301):
        for k in range(nkeys):
            key = rng.randbytes(32)
            ctr = Q_COUNTERS[(L + k) % len(Q_COUNTERS)]
            yield ("enc", L, k), {"kind": "enc", "key": key, "payload": rng.randbytes(L), "counter": ctr}
            yield ("dec", L, k), {"kind": "dec", "key": key, "payload": rng.randbytes(L), "counter": rng.randrange(65536),
                                  "pad": rng.randbytes(v3.pad_len(L))}
    # the receive path as a connection uses it: data_received (whole, or cut in 1-2 places) then read()
    for L in range(301):
        for k in range(1 if quick else 4):
            yield ("rx", L, k), {"kind": "rx", "key": rng.randbytes(32), "payload": rng.randbytes(L), "counter": rng.randrange(65536),
                                 "rseed": rng.getrandbits(32), "inner_marker": False}
    # payloads that look like something else: protocol words, markers, headers, all-equal bytes
    special = [b"ERROR", b"error", b"Error", b"OK", b"ok", b"\x00", b"\xff", b"\x83\x70", b"\x5a\x5a", b"\x83\x70\x00\x00\x20\x0f", b"\x5a\x5a\x01\x11",
               b"None", b"null", b"\r\n", b"ERROR\x00", b"\x00" * 16, b"\xff" * 16, b"\x10" * 16, b"\x0f" * 15, b" " * 5, bytes(range(32))]
    special += [bytes([v]) * n for v in (0x00, 0xFF, 0x20, 0x0A) for n in (2, 14, 15, 30, 31)]
    for j, pl in enumerate(special):
        yield ("rx-special", j), {"kind": "rx", "key": rng.randbytes(32), "payload": pl, "counter": rng.randrange(65536), "rseed": rng.getrandbits(32),
                                  "inner_marker": False}
        yield ("dec-special", j), {"kind": "dec", "key": rng.randbytes(32), "payload": pl, "counter": rng.randrange(65536), "pad": rng.randbytes(v3.pad_len(len(pl)))}
    # ... combined with packet counters whose own bytes look like a marker (the counter sits right in front of the payload)
    for ctr in (0x5A5A, 0x005A, 0x5A00, 0x015A, 0x8370, 0x7083, 0x0083, 0x7000, 0xAAAA, 0x00AA, 0xFFFF):
        for j, pl in enumerate(special[:12] + [b"\x5a", b"\x70", b"\xaa\x20\xac", b"\x5a\x5a" + rng.randbytes(40), b"\x70\x00\x20" + rng.randbytes(9)]):
            yield ("dec-special-ctr", ctr, j), {"kind": "dec", "key": rng.randbytes(32), "payload": pl, "counter": ctr, "pad": rng.randbytes(v3.pad_len(len(pl)))}
            if j % 3 == 0:
                yield ("rx-special-ctr", ctr, j), {"kind": "rx", "key": rng.randbytes(32), "payload": pl, "counter": ctr, "rseed": rng.getrandbits(32),
                                                   "inner_marker": False}
    # ... and responses whose ciphertext or tag happens to contain the start marker bytes 83 70 (searched for)
    found = 0
    want = 40 if quick else 12000
    tries = 0
    while found < want and tries < 400000:
        tries += 1
        key, L, ctr = rng.randbytes(32), rng.randint(0, 300), rng.randrange(65536)
        payload = rng.randbytes(L)
        pkt = v3.build_encrypted(key, payload, ctr, v3.T_ENC_RESP)
        if pkt.find(b"\x83\x70", 6) >= 0:
            found += 1
            yield ("rx-marker", found), {"kind": "rx", "key": key, "payload": payload, "counter": ctr, "rseed": rng.getrandbits(32),
                                         "inner_marker": True}
    if not quick:
        for kk in range(3):
            key = rng.randbytes(32)
            for ctr in list(range(4096)) + [4096, 65535, 65534, 32768]:
                yield ("enc-ctr", kk, ctr), {"kind": "enc", "key": key, "payload": rng.randbytes(ctr % 40), "counter": ctr}
    else:
        for ctr in Q_COUNTERS + [rng.randrange(4096) for _ in range(60)]:
            yield ("enc-ctr", ctr), {"kind": "enc", "key": rng.randbytes(32), "payload": rng.randbytes(ctr % 40), "counter": ctr}
    # sessions: many requests / responses of varying length on ONE protocol instance (state carried between packets)
    for j in range(40 if quick else 30000):
        style = j % 4
        if style == 0:
            lens = list(range(0, 48))
            rng.shuffle(lens)
        elif style == 1:
            lens = [rng.randint(0, 40) for _ in range(60)]
        elif style == 2:
            base = rng.randint(0, 200)
            lens = [base + d for d in rng.sample(range(0, 16), 16)]
        else:
            lens = [rng.choice([0, 1, 13, 14, 15, 16, 29, 30, 31, 104, 120]) for _ in range(40)]
        yield ("session", j), {"kind": "session", "key": rng.randbytes(32), "lengths": lens, "sseed": rng.getrandbits(32),
                               "via_write": j % 2 == 0}
    # tamper: one length per residue of (len+2) % 16
    for res in [r for r in range(16) for _ in range(1 if quick else 3)]:
        L = ((res - 2) % 16) + 16 * rng.choice([0, 1, 2])
        key = rng.randbytes(32)
        payload = rng.randbytes(L)
        yield ("tamper", res, L, key[:2]), {"kind": "tamper", "key": key, "payload": payload, "counter": rng.randrange(65536)}
        if quick:
            yield ("tamper-wire-type", res), {"kind": "tamper-wire", "key": key, "frame_len": L, "bits": "type+sample",
                                             "bseed": rng.getrandbits(32)}
        else:
            nb = (len(v3.build_encrypted(key, v2.build(bytes(L), 5), 0)) * 8)
            for part in range(8):
                yield ("tamper-wire-all", res, L, key[:2], part), {"kind": "tamper-wire", "key": key, "frame_len": L,
                                                                  "bits": "part", "part": part, "bseed": 0}
    # wire round trips under session keys with leading / trailing zero bytes, all-zero and all-ones keys (the device's nonce decides)
    for j, pat in enumerate(["lead0", "lead00", "lead0000", "trail0", "zero", "ones", "lead0-trail0"] * (2 if quick else 40)):
        yield ("wire-key-shape", j), {"kind": "wire", "frame": rng.randbytes(rng.randint(0, 60)), "responses": [rng.randbytes(rng.randint(0, 60))],
                                      "key": rng.randbytes(32), "token": rng.randbytes(64), "session_key_shape": pat, "shape_seed": rng.getrandbits(32)}
    # wire round trips
    for j in range(120 if quick else 240000):
        L = j % 200 if j < 200 else rng.randint(0, 255)
        yield ("wire", j), {"kind": "wire", "frame": rng.randbytes(L), "responses": [rng.randbytes(rng.choice([rng.randint(0, 120), rng.randint(120, 260)])) for _ in range(rng.choice([1, 1, 2]))],
                            "key": rng.randbytes(32), "token": rng.randbytes(64)}


def _proto(key):
    p = _LanProtocolV3()
    p._local_key = bytes(key)
    return p


def run_case(ctx, case):
    kind = case["kind"]
    if kind == "enc":
        _enc(ctx, case)
    elif kind == "dec":
        _dec(ctx, case)
    elif kind == "session":
        _session(ctx, case)
    elif kind == "rx":
        _rx(ctx, case)
    elif kind == "tamper":
        _tamper(ctx, case)
    elif kind == "tamper-wire":
        _tamper_wire(ctx, case)
    else:
        _wire(ctx, case)


class _CapTransport:
    """Minimal transport capturing what the protocol writes."""

    def __init__(self):
        self.out = []

    def get_extra_info(self, name, default=None):
        return ("10.9.8.7", 6444) if name == "peername" else default

    def is_closing(self):
        return False

    def write(self, data):
        self.out.append(bytes(data))

    def close(self):
        pass


def _session(ctx, case):
    """Requests and responses of varying length through one protocol instance, in sequence."""
    import random
    r = random.Random(case["sseed"])
    key = bytes(case["key"])
    proto = _proto(key)
    tr = _CapTransport()
    proto.connection_made(tr)
    expected_ctr = 0
    for i, L in enumerate(case["lengths"]):
        payload = r.randbytes(L)
        k = ("session", case["sseed"], i)
        try:
            if case["via_write"]:
                n0 = len(tr.out)
                proto.write(payload)
                wire = b"".join(tr.out[n0:])
                ctr = expected_ctr
                expected_ctr = (expected_ctr + 1) & 0xFFF
            else:
                # explicit counters on an object that has its own history: boundary values as often as random ones
                ctr = r.choice(Q_COUNTERS) if i % 2 else r.randrange(4096)
                if i % 3 == 0:
                    proto.write(r.randbytes(3))       # the object's own running counter moves on in between
                wire = proto._encode_encrypted_request(ctr, payload)
        except Exception as e:  # noqa: BLE001
            ctx.count(k, kind="session-enc-raised")
            ctx.violation("encode-raises", f"request {i} of a session (len {L}) raised {type(e).__name__}: {e}", case)
            return
        ctx.count(k, kind="session-enc", sample={"lengths": case["lengths"][:12], "via_write": case["via_write"]} if i == 5 else None)
        try:
            d = v3.parse_encrypted(key, wire, v3.T_ENC_REQ)
        except RefError as e:
            ctx.violation("session-encode-not-parseable", f"request {i} of a session (len {L}, after lengths {case['lengths'][max(0, i - 3):i]}) "
                          f"is rejected by the independent parser: {e}", case, {"wire": wire})
            continue
        if d["payload"] != payload or d["counter"] != ctr:
            ctx.violation("session-encode-mismatch", f"request {i} of a session (len {L}) decodes to {len(d['payload'])} bytes / counter {d['counter']}, "
                          f"expected {L} bytes / counter {ctr}", case, {"wire": wire})
        # and a response of another length decoded by the same instance
        L2 = case["lengths"][-1 - i]
        resp = r.randbytes(L2)
        pkt = v3.build_encrypted(key, resp, r.randrange(65536), v3.T_ENC_RESP, pad_bytes=r.randbytes(v3.pad_len(L2)))
        try:
            with memoryview(pkt) as mv:
                got = proto._process_packet(mv)
        except Exception as e:  # noqa: BLE001
            ctx.violation("session-decode-raises", f"response {i} of a session (len {L2}) raised {type(e).__name__}: {e}", case)
            continue
        ctx.count(("session-dec", case["sseed"], i), kind="session-dec")
        if bytes(got) != resp:
            ctx.violation("session-decode-mismatch", f"response {i} of a session (len {L2}) decoded to {len(got)} bytes", case)


def _enc(ctx, case):
    key, payload, ctr = bytes(case["key"]), bytes(case["payload"]), case["counter"]
    ctx.count(("enc", len(payload), ctr, key[:4]), kind="enc", sample=case if len(payload) == 21 else None)
    try:
        wire = _proto(key)._encode_encrypted_request(ctr, payload)
    except Exception as e:  # noqa: BLE001
        ctx.violation("encode-raises", f"_encode_encrypted_request raised {type(e).__name__}: {e} (len {len(payload)})", case)
        return
    try:
        d = v3.parse_encrypted(key, wire, v3.T_ENC_REQ)
    except RefError as e:
        ctx.violation("encode-not-parseable", f"independent parser rejects the request: {e} (len {len(payload)})", case, {"wire": wire})
        return
    if d["payload"] != payload:
        ctx.violation("encode-payload-mismatch", "independent parser decodes a different payload", case, {"wire": wire, "got": d["payload"]})
    if d["counter"] != ctr:
        ctx.violation("encode-counter-mismatch", f"counter decodes to {d['counter']} not {ctr}", case, {"wire": wire})


def _dec(ctx, case):
    key, payload = bytes(case["key"]), bytes(case["payload"])
    pkt = v3.build_encrypted(key, payload, case["counter"], v3.T_ENC_RESP, pad_bytes=bytes(case["pad"]))
    ctx.count(("dec", len(payload), key[:4]), kind="dec", sample=case if len(payload) == 21 else None)
    try:
        with memoryview(pkt) as mv:
            got = _proto(key)._process_packet(mv)
    except Exception as e:  # noqa: BLE001
        ctx.violation("decode-raises", f"_process_packet raised {type(e).__name__}: {e} on an authentic response (len {len(payload)})", case)
        return
    if bytes(got) != payload:
        pad = v3.pad_len(len(payload))
        mech = "decode-pad0-empty" if (pad == 0 and bytes(got) == b"" and payload) else "decode-payload-mismatch"
        ctx.violation(mech, f"authentic response of {len(payload)} payload bytes (pad {pad}) decoded to {len(got)} bytes", case,
                      {"packet": pkt, "got": bytes(got)})


def _rx(ctx, case):
    """An authentic response (plus a second one right behind it) through data_received in several segmentations, then read()."""
    import random
    from .c04 import _read_now
    r = random.Random(case["rseed"])
    key, payload = bytes(case["key"]), bytes(case["payload"])
    pkt = v3.build_encrypted(key, payload, case["counter"], v3.T_ENC_RESP)
    follow = r.randbytes(r.randint(0, 40))
    pkt2 = v3.build_encrypted(key, follow, (case["counter"] + 1) & 0xFFFF, v3.T_ENC_RESP)
    wire = pkt + pkt2
    n = len(pkt)
    cutsets = [(), (n,), (r.randint(1, n - 1),), (r.randint(1, n - 1), n), tuple(sorted(r.sample(range(1, len(wire)), 3)))]
    if case["inner_marker"]:
        m = pkt.find(b"\x83\x70", 6)
        cutsets += [(m + 2,), (m + 1,), (m + 2, n), (min(n - 1, m + 3),), (m,)]
    for cuts in cutsets:
        k = ("rx", len(payload), key[:4], cuts)
        proto = _proto(key)
        got = []
        try:
            b = [0] + [c for c in cuts if 0 < c < len(wire)] + [len(wire)]
            for a, e in zip(b, b[1:]):
                proto.data_received(wire[a:e])
            while True:
                ok, val = _read_now(proto)
                if not ok:
                    break
                got.append(bytes(val))
        except Exception as e:  # noqa: BLE001
            ctx.count(k, kind="rx-raised")
            ctx.violation("decode-raises", f"receive path raised {type(e).__name__}: {e} on authentic responses (len {len(payload)}, cuts {cuts})", case)
            continue
        ctx.count(k, kind="rx-inner-marker" if case["inner_marker"] else "rx",
                  sample={"payload_len": len(payload), "cuts": list(cuts), "inner_marker": case["inner_marker"]} if len(payload) in (21, 250) or case["inner_marker"] else None)
        if got != [payload, follow]:
            ctx.violation("receive-path-mismatch", f"authentic response of {len(payload)} bytes (packet {n} bytes) and its successor, delivered with cuts "
                          f"{cuts}: read() returned {[len(g) for g in got]} instead of [{len(payload)}, {len(follow)}]", case, {"wire": wire})


HEADER_BITS_TYPE = [(5, b) for b in range(4)]


def _tamper(ctx, case):
    key, payload = bytes(case["key"]), bytes(case["payload"])
    pkt = v3.build_encrypted(key, payload, case["counter"], v3.T_ENC_RESP)
    proto = _proto(key)
    nflips = 0
    for pos in range(len(pkt)):
        for bit in range(8):
            if nflips % 5 == 0:
                # the genuine response is accepted on this same protocol object before (and between) the altered copies
                try:
                    with memoryview(pkt) as mv:
                        if bytes(proto._process_packet(mv)) != payload:
                            ctx.violation("decode-payload-mismatch", "genuine response mis-decoded between tamper attempts", case)
                except Exception as e:  # noqa: BLE001
                    ctx.violation("decode-raises", f"genuine response rejected between tamper attempts: {type(e).__name__}: {e}", case)
            nflips += 1
            if pos == 5 and bit == 1:
                ctx.skip("type-nibble 3->1 flip judged at LAN.send level")
                continue
            c = bytearray(pkt)
            c[pos] ^= 1 << bit
            k = ("tamper", len(payload), pos, bit)
            region = "header" if pos < 6 else ("tag" if pos >= len(pkt) - 32 else "ciphertext")
            try:
                with memoryview(bytes(c)) as mv:
                    got = proto._process_packet(mv)
            except ProtocolError:
                ctx.count(k, kind=f"tamper-{region}-rejected")
                continue
            except Exception as e:  # noqa: BLE001
                ctx.count(k, kind="tamper-other-exception")
                ctx.violation("tamper-other-exception", f"{type(e).__name__} instead of a protocol error (bit {bit} of byte {pos}, {region})",
                              case, {"pos": pos, "bit": bit})
                continue
            ctx.count(k, kind="tamper-accepted")
            ctx.violation("tamper-accepted", f"altered response accepted (bit {bit} of byte {pos}, {region}); returned {len(got)} bytes",
                          case, {"pos": pos, "bit": bit, "got": bytes(got)})


def _tamper_wire(ctx, case):
    import random
    key = bytes(case["key"])
    token = bytes(range(64))
    frame = bytes(range(case["frame_len"]))
    # size of the packet the device will produce for this frame
    probe = v3.build_encrypted(key, v2.build(frame, 5), 0, v3.T_ENC_RESP)
    nbits = len(probe) * 8
    if case["bits"] == "all":
        bits = list(range(nbits))
    elif case["bits"] == "part":
        bits = list(range(case["part"], nbits, 8))
    else:
        r = random.Random(case["bseed"])
        # always: the type/pad byte and the whole 16-bit size field (framing-level faults); plus a random sample of the rest
        bits = [5 * 8 + b for b in range(8)] + [2 * 8 + b for b in range(16)] + r.sample(range(nbits), 14)
    for bi in bits:
        pos, bit = divmod(bi, 8)
        net = H.new_net()
        dev = SimDevice(net, version=3, token=token, key=key, device_id=5)

        nrep = {"n": 0}

        def on_exchange(conn, req, packets, meta, pos=pos, bit=bit, nrep=nrep, only_first=bool(bi % 2)):
            good = dev.wrap(conn, frame) if bi % 4 == 2 else None
            p = bytearray(dev.wrap(conn, frame))
            nrep["n"] += 1
            if nrep["n"] == 1 or not only_first:
                p[pos] ^= 1 << bit          # every reply altered, or (odd bit numbers) only the first: a retransmission would be answered intact
            if good is not None:
                return [(0, good), (0, bytes(p))]      # (every fourth bit) the altered response travels right behind an intact one
            return [(0, bytes(p))]

        dev.on_exchange = on_exchange

        async def go(loop):
            lan = LAN(dev.host, dev.port, 5)
            await lan.authenticate(token, key)
            return await lan.send(b"\xaa\x0b\xac" + bytes(8))

        k = ("tamper-wire", case["frame_len"], pos, bit)
        framing = pos < 5          # marker, size and the fixed magic byte: what a framer may use to find packets in the stream
        try:
            got, loop = H.run_virtual(go, net)
        except ProtocolError:
            ctx.count(k, kind="tamper-wire-protocol-error")
            continue
        except TimeoutError:
            ctx.count(k, kind="tamper-wire-timeout")
            if not framing:
                ctx.violation("tamper-wire-timeout", f"bit {bit} of byte {pos} altered: exchange timed out instead of a protocol error", case,
                              {"pos": pos, "bit": bit})
            continue
        except Exception as e:  # noqa: BLE001
            ctx.count(k, kind="tamper-wire-other-exception")
            ctx.violation("tamper-wire-other-exception", f"{type(e).__name__}: {e} (bit {bit} of byte {pos})", case, {"pos": pos, "bit": bit})
            continue
        if framing and bi % 4 == 2 and [bytes(g) for g in got] == [frame]:
            # the altered copy behind an intact response was never recognised as a packet (framing bytes): only the intact one came back
            ctx.count(k, kind="tamper-wire-unrecognised-behind-intact")
            continue
        if framing and bi % 2 and nrep["n"] >= 2 and [bytes(g) for g in got] == [frame]:
            # only the first reply was altered, in the bytes a framer uses to find packets: it was never recognised as a packet,
            # the request was retransmitted and the intact second reply is what came back
            ctx.count(k, kind="tamper-wire-unrecognised-then-intact-retry")
            continue
        ctx.count(k, kind="tamper-wire-accepted")
        ctx.violation("tamper-wire-accepted", f"LAN.send returned frames for an altered response (bit {bit} of byte {pos})", case,
                      {"pos": pos, "bit": bit, "got": [bytes(g) for g in got]})


def _wire(ctx, case):
    key, token = bytes(case["key"]), bytes(case["token"])
    frame = bytes(case["frame"])
    responses = [bytes(r) for r in case["responses"]]
    net = H.new_net()
    dev = SimDevice(net, version=3, token=token, key=key, device_id=99)
    if case.get("session_key_shape"):
        import random
        rr = random.Random(case["shape_seed"])
        sk = bytearray(rr.randbytes(32))
        shape = case["session_key_shape"]
        if shape.startswith("lead"):
            k = {"lead0": 1, "lead00": 2, "lead0000": 4, "lead0-trail0": 1}[shape]
            sk[:k] = bytes(k)
        if shape.endswith("trail0"):
            sk[-1] = 0
        if shape == "zero":
            sk = bytearray(32)
        if shape == "ones":
            sk = bytearray(b"\xff" * 32)
        nonce = bytes(a ^ b for a, b in zip(sk, key))      # session key = nonce XOR key
        dev.nonce_source = lambda: nonce
    seen = []

    def on_exchange(conn, req, packets, meta):
        seen.append((req, meta["v3"]["counter"], meta["v3"]["pad"]))
        return [(0, dev.wrap(conn, r)) for r in responses]

    dev.on_exchange = on_exchange

    async def go(loop):
        lan = LAN(dev.host, dev.port, 99)
        await lan.authenticate(token, key)
        return await lan.send(frame)

    ctx.count(("wire", len(frame), key[:4]), kind="wire", sample={"frame_len": len(frame), "responses": [len(r) for r in responses]})
    try:
        got, loop = H.run_virtual(go, net)
    except Exception as e:  # noqa: BLE001
        bad = [ev for ev in dev.events if ev[1] == "pkt" and ev[3] in ("bad_data", "junk-preauth")]
        ctx.violation("wire-raises", f"LAN.send raised {type(e).__name__}: {e} on an authenticated V3 session", case,
                      {"device_rejections": [b[4] for b in bad][:3]})
        return
    if not seen or seen[0][0] != frame:
        ctx.violation("wire-request-mismatch", "device did not decode the frame that was sent", case, {"seen": seen[:1]})
    if [bytes(g) for g in got] != responses:
        ctx.violation("wire-response-mismatch", "frames returned differ from the frames the device sent", case,
                      {"got": [bytes(g) for g in got]})
