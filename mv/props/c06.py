"""C06 - V3 handshake: key agreement when genuine, sound rejection otherwise."""
from __future__ import annotations

from .. import harness as H
from ..ref import acframe, v3
from ..simdev import SimDevice

from msmart.device import AirConditioner as AC
from msmart.lan import LAN, AuthenticationError, ProtocolError

ID = "C06"
LEVEL = "fault_enumeration"
RULE = ("for random (token, key, nonce) triples (key/token offered as bytes or hex strings): (1) a genuine reply must authenticate, "
        "store the offered token/key and be followed by an encrypted exchange the simulated device accepts under nonce XOR key; "
        "(2) altered replies - every single-bit flip of the 64-byte proof, every reply length 0..80 except 64, error / encrypted-response / "
        "every other packet type in place of the reply, a proof computed under a different key (random, and a catalogue of keys an outsider could compute: zeros, ones, digests of the published signing key, parts and digests of the token, permutations of the real key), and single-bit flips of the reply's header "
        "and counter - must make Device.authenticate raise AuthenticationError (LAN.authenticate: AuthenticationError or TimeoutError), "
        "leave Device.token/key as they were (None, or the credentials of an earlier successful authentication on a previous connection), "
        "put nothing but handshake requests carrying the offered token on the wire, and leave the session unauthenticated (the next "
        "exchange starts with a handshake or sends nothing). Session histories on one object: after a genuine authentication, a second authenticate - on the live session or after the 12 h lifetime passed - that is answered with an altered reply, an error packet, or is called with a wrong key must fail the same way, and an expired session must then stay unauthenticated. Header/counter flips that leave the 64 proof bytes intact may also succeed, "
        "then with equal keys. distinct = (triple id, alteration); all non-trivial")
ASSUMPTIONS = ["a failed re-authentication on a still-authenticated LIVE connection is judged for exception class, wire discipline and stored "
               "credentials, but not for 'the session stays unauthenticated' (the earlier session is still valid); that clause is judged "
               "for fresh, peer-closed and expired sessions",
               "framing-level header flips (marker/size) may end in a timeout, which Device.authenticate must still map to AuthenticationError"]
# reach anchors: only entry points this check calls itself or callbacks the event loop needs (robust against internal refactors);
# that the mechanism was really exercised is demanded through MIN_NONTRIVIAL / MIN_HIST outcome counts
ANCHORS = ["lan.py:LAN.authenticate", "base_device.py:Device.authenticate", "lan.py:LAN.send"]
MIN_NONTRIVIAL = {"quick": 8000, "thorough": 200000}
MIN_HIST = {"quick": {"genuine-ok": 40}, "thorough": {"genuine-ok": 800}}
WORKERS = {"quick": 1, "thorough": 16}
EXHAUSTIVE = {t: ["all 512 single-bit flips of the proof per triple", "reply lengths 0..80", "all 16 type nibbles in place of the reply",
                  "all single-bit flips of the 8 header/counter bytes"] for t in ("quick", "thorough")}


def generate(ctx, rng):
    quick = ctx.tier == "quick"
    ntriples = 14 if quick else 6000
    for t in range(ntriples):
        base = {"token": rng.randbytes(64), "key": rng.randbytes(32), "nonce": rng.randbytes(32),
                "key_form": rng.choice(["bytes", "hex", "HEX"]), "token_form": rng.choice(["bytes", "hex", "HEX"]),
                "prior": rng.random() < 0.4, "tid": t}
        yield ("genuine", t), {**base, "family": "genuine"}
        for part in range(4):
            yield ("flips", t, part), {**base, "family": "bitflips", "part": part}
        yield ("lengths", t), {**base, "family": "lengths"}
        yield ("types", t), {**base, "family": "types"}
        yield ("otherkey", t), {**base, "family": "otherkey", "other": rng.randbytes(32)}
        yield ("header", t), {**base, "family": "header"}
    # histories on one object: genuine authentication, then (a) the 12 h lifetime passes and the re-authentication is answered
    # with an altered reply, or (b) authenticate is called again on the still-valid session with a wrong key / altered reply
    for j in range(24 if quick else 18000):
        yield ("session", j), {"token": rng.randbytes(64), "key": rng.randbytes(32), "nonce": None, "other": rng.randbytes(32),
                               "key_form": rng.choice(["bytes", "hex"]), "token_form": rng.choice(["bytes", "hex"]), "prior": False,
                               "tid": 30000 + j, "family": "session",
                               "variant": ["expired-then-altered", "live-wrong-key", "live-altered", "expired-then-wrong-key",
                                           "live-good-again", "expired-then-error-packet", "live-abandoned-new-credentials",
                                           "expired-abandoned-new-credentials"][j % 8]}
    # genuine replies that are late: well inside the read timeout, and arriving in the window right after a read
    # timeout fired but before the retry starts (same loop iteration: the 2 s timer runs first, then the delivery)
    for j, delay in enumerate([0.0, 0.3, 1.0, 1.75, 1.999, 2.0 + 1e-7] * (4 if quick else 60)):
        yield ("genuine-delayed", j), {"token": rng.randbytes(64), "key": rng.randbytes(32), "nonce": None, "reply_delay": delay,
                                       "key_form": rng.choice(["bytes", "hex"]), "token_form": "bytes", "prior": False,
                                       "tid": 20000 + j, "family": "genuine"}
    # genuine handshakes whose derived session key has leading / trailing zero bytes or is all zeros / ones (nonce chosen against the key),
    # and credentials given as raw bytes that happen to consist of ASCII hex digits, printable text or whitespace
    for j, shape in enumerate(["lead0", "lead00", "trail0", "zero", "ones", "lead0000"] * (2 if quick else 30)):
        key = rng.randbytes(32)
        sk = bytearray(rng.randbytes(32))
        if shape.startswith("lead"):
            k = {"lead0": 1, "lead00": 2, "lead0000": 4}[shape]
            sk[:k] = bytes(k)
        elif shape == "trail0":
            sk[-1] = 0
        elif shape == "zero":
            sk = bytearray(32)
        else:
            sk = bytearray(b"\xff" * 32)
        yield ("genuine-keyshape", j), {"token": rng.randbytes(64), "key": key, "nonce": bytes(a ^ b for a, b in zip(sk, key)),
                                        "key_form": rng.choice(["bytes", "hex"]), "token_form": "bytes", "prior": False, "tid": 42000 + j, "family": "genuine"}
    texty = [(b"0123456789abcdef" * 4, b"00112233445566778899aabbccddeeff"), (b"ABCDEF0123456789" * 4, b"FFEEDDCCBBAA99887766554433221100"),
             (b"a" * 64, b"b" * 32), (b" " * 64, b"0" * 32), (b"token-" * 10 + b"abcd", b"key-" * 8), (b"0x" * 32, b"0x" * 16),
             (bytes(range(48, 58)) * 6 + b"0123", b"deadbeef" * 4)]
    for j, (tok, key) in enumerate(texty):
        for form in ("bytes", "hex"):
            yield ("genuine-texty", j, form), {"token": tok, "key": key, "nonce": rng.randbytes(32), "key_form": form, "token_form": form,
                                               "prior": False, "tid": 43000 + 2 * j + (form == "hex"), "family": "genuine"}
    # genuine replies whose proof (AES ciphertext + SHA-256) happens to contain the packet start marker 83 70, or the V2 marker 5A 5A
    # (nonces searched for; about one nonce in a thousand)
    for j, marker in enumerate([b"\x83\x70", b"\x5a\x5a"] * (6 if quick else 600)):
        key = rng.randbytes(32)
        for _ in range(200000):
            nonce = rng.randbytes(32)
            if v3.handshake_proof(key, nonce).find(marker) >= 0:
                break
        yield ("genuine-inner-marker", j), {"token": rng.randbytes(64), "key": key, "nonce": nonce, "key_form": "bytes", "token_form": rng.choice(["bytes", "hex"]),
                                            "prior": j % 4 == 0, "tid": 44000 + j, "family": "genuine", **({"splits": [rng.randrange(1, 72)]} if j % 3 == 2 else {})}
    # a genuine reply that reaches the client in two or three TCP segments (every split point of the 72-byte packet)
    for split in range(1, 72):
        yield ("genuine-split", split), {"token": rng.randbytes(64), "key": rng.randbytes(32), "nonce": rng.randbytes(32), "splits": [split],
                                         "key_form": "bytes", "token_form": "bytes", "prior": False, "tid": 40000 + split, "family": "genuine"}
    for j in range(20 if quick else 22500):
        yield ("genuine-split3", j), {"token": rng.randbytes(64), "key": rng.randbytes(32), "nonce": rng.randbytes(32),
                                      "splits": sorted(rng.sample(range(1, 72), 2)), "key_form": "hex", "token_form": "bytes", "prior": False,
                                      "tid": 41000 + j, "family": "genuine"}
    for j in range(60 if quick else 45000):
        yield ("genuine-extra", j), {"token": rng.randbytes(64), "key": rng.randbytes(32), "nonce": rng.randbytes(32),
                                     "key_form": rng.choice(["bytes", "hex", "HEX"]), "token_form": rng.choice(["bytes", "hex", "HEX"]),
                                     "prior": False, "tid": 10000 + j, "family": "genuine",
                                     # hex strings with leading zero digits / zero bytes
                                     **({"token": bytes([0, rng.randrange(16)]) + rng.randbytes(62), "key": bytes([rng.randrange(16)]) + rng.randbytes(31)}
                                        if j % 3 == 0 else {})}


def _form(b: bytes, form: str):
    if form == "HEX":
        return b.hex().upper()
    return b.hex() if form == "hex" else b


def _alterations(case):
    """Yield (name, fn(reply_bytes, info) -> list of reply packets, proof_intact)."""
    fam = case["family"]
    if fam == "bitflips":
        for bit in range(case["part"], 512, 4):
            def f(reply, info, bit=bit):
                b = bytearray(reply)
                b[8 + bit // 8] ^= 1 << (bit % 8)
                return [bytes(b)]
            yield ("flip", bit), f, False
    elif fam == "lengths":
        for n in list(range(0, 64)) + list(range(65, 81)):
            def f(reply, info, n=n):
                proof = (reply[8:] + bytes(range(40)))[:n]
                return [v3.build_handshake_response(proof, info["counter"])]
            yield ("len", n), f, False
    elif fam == "types":
        for ptype in range(16):
            if ptype == v3.T_HS_RESP:
                continue
            def f(reply, info, ptype=ptype):
                return [v3.build_handshake_response(reply[8:], info["counter"], ptype=ptype)]
            yield ("type", ptype), f, False
        yield ("error-packet",), (lambda reply, info: [v3.build_error(info["counter"])]), False
        yield ("enc-response-garbage",), (lambda reply, info: [v3.header(64 + 32, 0, v3.T_ENC_RESP) + bytes(2) + bytes(range(64)) + bytes(32)]), False
        yield ("enc-response-valid-looking",), (lambda reply, info: [v3.build_encrypted(bytes(32), b"hello world 12", 0)]), False
        yield ("two-replies-bad-then-good",), (lambda reply, info: [v3.build_error(info["counter"]), reply]), False
    elif fam == "otherkey":
        def f(reply, info):
            return [v3.build_handshake_response(v3.handshake_proof(bytes(case["other"]), info["nonce"]), info["counter"])]
        yield ("otherkey",), f, False
        # keys somebody who does not know the device key could still compute or guess
        import hashlib
        from ..ref import v2 as _v2
        tok, real = bytes(case["token"]), bytes(case["key"])
        known = {"zero": bytes(32), "ff": b"\xff" * 32, "sha256-sign-key": hashlib.sha256(_v2.SIGN_KEY).digest(),
                 "md5-sign-key-twice": _v2.ENC_KEY * 2, "sign-key-prefix": _v2.SIGN_KEY[:32], "token-head": tok[:32], "token-tail": tok[32:],
                 "sha256-token": hashlib.sha256(tok).digest(), "key-reversed": real[::-1], "sha256-key": hashlib.sha256(real).digest(),
                 "key-rotated": real[1:] + real[:1], "key-complement": bytes(b ^ 0xFF for b in real)}
        for name, kk in known.items():
            if kk == real:
                continue

            def fk(reply, info, kk=kk):
                return [v3.build_handshake_response(v3.handshake_proof(kk, info["nonce"]), info["counter"])]
            yield ("otherkey-" + name,), fk, False

        def g(reply, info):
            return [v3.build_handshake_response(reply[8:40] + bytes(reversed(reply[40:72])), info["counter"])]
        yield ("hash-reversed",), g, False
        yield ("all-zero-proof",), (lambda reply, info: [v3.build_handshake_response(bytes(64), info["counter"])]), False
    elif fam == "header":
        for bit in range(64):
            def f(reply, info, bit=bit):
                b = bytearray(reply)
                b[bit // 8] ^= 1 << (bit % 8)
                return [bytes(b)]
            yield ("hdr", bit), f, True


def run_case(ctx, case):
    token, key, nonce = bytes(case["token"]), bytes(case["key"]), bytes(case["nonce"] or b"")
    tok_arg, key_arg = _form(token, case["token_form"]), _form(key, case["key_form"])
    if case["family"] == "genuine":
        return _genuine(ctx, case, token, key, nonce, tok_arg, key_arg)
    if case["family"] == "session":
        return _session(ctx, case, token, key, tok_arg, key_arg)
    old_tok, old_key = bytes(reversed(token)), bytes(reversed(key))
    results = []
    net = H.new_net()
    dev = SimDevice(net, version=3, token=token, key=key, device_id=0xD00D)
    dev.nonce_source = lambda: nonce
    mode = {"alter": None}
    mid = {}

    def on_handshake(conn, ok, reply, info):
        if mode["alter"] is None or not ok:
            return None
        return [(0, p) for p in mode["alter"](reply, info)]

    dev.on_handshake = on_handshake
    alts = list(_alterations(case))

    async def go(loop):
        for i, (name, fn, intact) in enumerate(alts):
            ac = AC(ip=dev.host, port=dev.port, device_id=dev.device_id)
            prior = case["prior"] and i % 3 == 0
            if prior:
                # earlier successful authentication with other credentials, then the peer closes that connection
                mode["alter"] = None
                dev.token, dev.key = old_tok, old_key
                await ac.authenticate(old_tok, old_key)
                for c in dev.conns:
                    if not c.closed:
                        c.emit([(0, "fin")])
                await _tick()
                dev.token, dev.key = token, key
            before = (ac.token, ac.key)
            n_ev = len(dev.events)
            mode["alter"] = fn
            use_lan = (i % 7 == 3) and not prior
            exc = None
            try:
                if use_lan:
                    await ac._lan.authenticate(tok_arg, key_arg)
                else:
                    await ac.authenticate(tok_arg, key_arg)
            except BaseException as e:  # noqa: BLE001
                exc = e
            after = (ac.token, ac.key)
            wire = [ev for ev in dev.events[n_ev:] if ev[1] == "pkt"]
            follow = None
            if exc is not None and (i % 8 == 0 or case["family"] != "bitflips"):
                # next exchange must not put data on the wire before a (new) handshake
                mode["alter"] = None
                n2 = len(dev.events)
                try:
                    await ac.refresh()
                    ferr = None
                except BaseException as e:  # noqa: BLE001
                    ferr = e
                follow = ([ev for ev in dev.events[n2:] if ev[1] == "pkt"], ferr, ac.online)
            elif exc is None:
                mode["alter"] = None
                n2 = len(dev.events)
                await ac.refresh()
                follow = ([ev for ev in dev.events[n2:] if ev[1] == "pkt"], None, ac.online)
            results.append((name, intact, use_lan, prior, exc, before, after, wire, follow))

    H.run_virtual(go, net)
    for name, intact, use_lan, prior, exc, before, after, wire, follow in results:
        k = (case["tid"], name, prior)
        one = {**case, "alteration": list(name)}
        if exc is None:
            if not intact:
                ctx.count(k, kind="altered-accepted")
                ctx.violation("altered-reply-accepted", f"authentication succeeded for an altered reply {name}", one)
                continue
            # header flip that left the proof intact: success is fine if the keys agree
            pk, ferr, online = follow
            good = [ev for ev in pk if ev[3] == "data"]
            if not online or not good:
                ctx.count(k, kind="intact-success-key-mismatch")
                ctx.violation("success-without-key-agreement", f"authenticate returned for {name} but the following exchange was not accepted", one)
            else:
                ctx.count(k, kind="header-flip-success")
            continue
        if isinstance(exc, (KeyboardInterrupt, SystemExit)):
            raise exc
        allowed = (AuthenticationError, TimeoutError) if use_lan else (AuthenticationError,)
        kind = f"rejected-{case['family']}"
        ctx.count(k, kind=kind, sample={"alteration": list(name), "exception": type(exc).__name__, "prior_credentials": prior})
        if not isinstance(exc, allowed):
            ctx.violation(f"wrong-exception/{type(exc).__name__}", f"{'LAN' if use_lan else 'Device'}.authenticate raised {type(exc).__name__}: {exc} "
                          f"for altered reply {name}", one)
        if after != before:
            ctx.violation("stored-credentials-replaced", f"token/key changed from {before} to {after} although authentication failed ({name})", one)
        for ev in wire:
            if ev[3] != "hs-req":
                ctx.violation("non-handshake-sent", f"packet of kind {ev[3]} written during a failing authentication ({name})", one)
            elif bytes(ev[4]) != token:
                ctx.violation("wrong-token-sent", f"handshake request carried a token other than the offered one ({name})", one)
        if follow is not None:
            pk, ferr, online = follow
            if ferr is not None:
                ctx.violation("follow-up-raises", f"refresh after a failed authentication raised {type(ferr).__name__}: {ferr}", one)
            if pk and pk[0][3] != "hs-req":
                ctx.violation("data-before-handshake", f"after a failed authentication ({name}) the next exchange started with {pk[0][3]}", one)
            ctx.bump("follow-up-checked")


async def _tick():
    import asyncio
    for _ in range(3):
        await asyncio.sleep(0)


def _genuine(ctx, case, token, key, nonce, tok_arg, key_arg):
    net = H.new_net()
    dev = SimDevice(net, version=3, token=token, key=key, device_id=0xD00D, seed=case["tid"])
    if nonce:
        dev.nonce_source = lambda: nonce
    if case.get("reply_delay"):
        # a fresh nonce per handshake request (the device re-keys on every request it answers)
        # only the reply to the FIRST request is late; a device that is always slower than the timeout may legitimately fail
        nreq = {"n": 0}

        def on_handshake(conn, ok, reply, info):
            nreq["n"] += 1
            return [(case["reply_delay"] if nreq["n"] == 1 else 0.0, reply)] if ok else None

        dev.on_handshake = on_handshake
    if case.get("splits"):
        def on_handshake(conn, ok, reply, info):
            if not ok:
                return None
            b = [0] + list(case["splits"]) + [len(reply)]
            return [(0.01 * i, reply[a:e]) for i, (a, e) in enumerate(zip(b, b[1:]))]

        dev.on_handshake = on_handshake

    async def go(loop):
        ac = AC(ip=dev.host, port=dev.port, device_id=dev.device_id)
        await ac.authenticate(tok_arg, key_arg)
        stored = (ac.token, ac.key)
        await ac.refresh()
        lan = LAN(dev.host, dev.port, dev.device_id)
        await lan.authenticate(tok_arg, key_arg)
        frames = await lan.send(acframe.state_query())
        return stored, ac.online, (lan.token, lan.key), len(frames)

    k = (case["tid"], "genuine", case["key_form"], case["token_form"], case.get("reply_delay"), tuple(case.get("splits") or ()))
    try:
        (stored, online, lanstored, nframes), loop = H.run_virtual(go, net)
    except Exception as e:  # noqa: BLE001
        ctx.count(k, kind="genuine-failed")
        ctx.violation("genuine-rejected", f"genuine handshake failed: {type(e).__name__}: {e}", case)
        return
    good = [d for d in dev.data_packets if d[4]]
    bad = [d for d in dev.data_packets if not d[4]]
    if stored != (token.hex(), key.hex()) or lanstored != (token, key):
        ctx.violation("credentials-not-stored", f"after success token/key are {stored}", case)
    if not online or len(good) < 1 or bad:
        ctx.count(k, kind="genuine-no-exchange")
        ctx.violation("no-key-agreement", f"exchange after a genuine handshake not accepted by the device (online={online}, rejected={[b[5] for b in bad][:2]})", case)
        return
    if nonce and any(c.skey != v3.session_key(key, nonce) for c in dev.conns):
        ctx.inconclusive_because("simulated device did not derive nonce XOR key")
    ctx.count(k, kind="genuine-ok", sample={"key_form": case["key_form"], "token_form": case["token_form"]})


def _session(ctx, case, token, key, tok_arg, key_arg):
    """A second authentication on an object that authenticated genuinely before (live or expired session)."""
    import asyncio
    variant = case["variant"]
    other = bytes(case["other"])
    net = H.new_net()
    dev = SimDevice(net, version=3, token=token, key=key, device_id=0xD00D, seed=case["tid"])
    mode = {"alter": None}
    mid = {}

    def on_handshake(conn, ok, reply, info):
        if mode["alter"] is None or not ok:
            return None
        return [(0, mode["alter"](reply, info))]

    dev.on_handshake = on_handshake

    def flip(reply, info):
        b = bytearray(reply)
        b[8 + (case["tid"] * 7) % 64] ^= 1 << (case["tid"] % 8)
        return bytes(b)

    async def go(loop):
        ac = AC(ip=dev.host, port=dev.port, device_id=dev.device_id)
        await ac.authenticate(tok_arg, key_arg)
        await ac.refresh()
        first_ok = ac.online
        if variant.startswith("expired"):
            await asyncio.sleep(12 * 3600 + 61.7)
        before = (ac.token, ac.key)
        n_ev = len(dev.events)
        exc = None
        try:
            if variant in ("expired-then-altered", "live-altered"):
                mode["alter"] = flip
                await ac.authenticate(tok_arg, key_arg)
            elif variant in ("live-wrong-key", "expired-then-wrong-key"):
                await ac.authenticate(tok_arg, other.hex() if case["key_form"] == "hex" else other)
            elif variant.endswith("abandoned-new-credentials"):
                # new credentials are offered, the unit never answers that handshake, and the caller gives up after half a second:
                # the offered pair was never proven - during the attempt and afterwards the stored pair is the proven one
                dev.silent_on_bad_token = True
                t2, k2 = bytes(reversed(token)), other
                task = asyncio.ensure_future(ac.authenticate(t2.hex() if case["token_form"] == "hex" else t2, k2.hex() if case["key_form"] == "hex" else k2))
                await asyncio.sleep(0.3)
                mid["creds"] = (ac.token, ac.key)
                await asyncio.sleep(0.2)
                task.cancel()
                await task
            elif variant == "expired-then-error-packet":
                mode["alter"] = lambda reply, info: v3.build_error(info["counter"])
                await ac.authenticate(tok_arg, key_arg)
            else:
                await ac.authenticate(tok_arg, key_arg)
        except BaseException as e:  # noqa: BLE001
            exc = e
        mode["alter"] = None
        after = (ac.token, ac.key)
        wire = [ev for ev in dev.events[n_ev:] if ev[1] == "pkt"]
        n2 = len(dev.events)
        ferr = None
        try:
            await ac.refresh()
        except BaseException as e:  # noqa: BLE001
            ferr = e
        follow = [ev for ev in dev.events[n2:] if ev[1] == "pkt"]
        return first_ok, exc, before, after, wire, follow, ferr, ac.online

    k = (case["tid"], "session", variant)
    try:
        (first_ok, exc, before, after, wire, follow, ferr, online), loop = H.run_virtual(go, net)
    except Exception as e:  # noqa: BLE001
        ctx.count(k, kind="session-raised")
        ctx.violation("genuine-rejected", f"initial genuine authentication failed in a session history: {type(e).__name__}: {e}", case)
        return
    if not first_ok:
        ctx.violation("no-key-agreement", "exchange after the initial genuine handshake not accepted", case)
        return
    if isinstance(exc, (KeyboardInterrupt, SystemExit)):
        raise exc
    if variant == "live-good-again":
        ctx.count(k, kind="session-reauth-good")
        if exc is not None or not online:
            ctx.violation("genuine-rejected", f"genuine re-authentication on a live session failed: {exc!r}, online={online}", case)
        return
    ctx.count(k, kind=f"session-{variant}", sample={"variant": variant, "exception": type(exc).__name__ if exc else None})
    if variant.endswith("abandoned-new-credentials"):
        if "creds" in mid and mid["creds"] != before:
            ctx.violation("stored-credentials-replaced", f"token/key already replaced while the (never answered) handshake was pending ({variant})", case)
        if after != before:
            ctx.violation("stored-credentials-replaced", f"token/key changed although the authentication was abandoned unanswered ({variant})", case)
        if ferr is not None or not online:
            ctx.violation("no-recovery-after-abandoned-authentication", f"refresh with the proven credentials afterwards: {ferr!r}, online={online} ({variant})", case)
        return
    if exc is None:
        ctx.violation("altered-reply-accepted", f"second authentication succeeded although the reply does not prove the offered key ({variant})", case)
        return
    if not isinstance(exc, AuthenticationError):
        ctx.violation(f"wrong-exception/{type(exc).__name__}", f"Device.authenticate raised {type(exc).__name__}: {exc} ({variant})", case)
    if after != before:
        ctx.violation("stored-credentials-replaced", f"token/key changed although authentication failed ({variant})", case)
    for ev in wire:
        if ev[3] != "hs-req":
            ctx.violation("non-handshake-sent", f"packet of kind {ev[3]} written during a failing authentication ({variant})", case)
    if ferr is not None:
        ctx.violation("follow-up-raises", f"refresh after the failed authentication raised {type(ferr).__name__}: {ferr}", case)
    if variant.startswith("expired"):
        # the expired session must stay unauthenticated: the next exchange begins with a handshake, never with data
        if follow and follow[0][3] != "hs-req":
            ctx.violation("data-before-handshake", f"after a failed re-authentication of an expired session the next exchange started with "
                          f"{follow[0][3]} ({variant})", case)
        ctx.bump("follow-up-checked")
