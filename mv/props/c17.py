"""C17 - discovery reports each replying device with exactly its advertised identity."""
from __future__ import annotations

import random

from .. import harness as H
from ..ref import discovery as D
from ..simdev import ACModel, SimDevice, SimHost

from msmart.base_device import Device
from msmart.device import AirConditioner as AC
from msmart.discover import Discover

ID = "C17"
LEVEL = "exploration"
RULE = ("a case = a simulated network of 1..4 hosts, each listening on 6445 or 20086 and answering only an acceptable probe (5A5A, length "
        "field == datagram length, message type 92 00, valid keyed MD5, payload decrypting to the discovery request - compared with a "
        "private byte-exact copy of the probe real devices answer; broadcast only with SO_BROADCAST set) with a well-formed V2 or V3 "
        "reply built by the reference (48-bit id, port, serial number, name net_<type>_<suffix>, reported IP equal to or different from "
        "the source); discover_single is called with the dotted address or with a host name that resolves to the host; name and trailer lengths cover every residue of the payload length modulo 16. Oracle: Discover.discover()/discover_single() returns exactly one device per host with id, port, sn, name, type "
        "(from the name), version as encoded and ip = the datagram's source address; class AirConditioner iff type 0xAC, else generic "
        "Device; with auto_connect a V2 air conditioner is refreshed over TCP at the advertised port. discovery_packets in {1,2,3,5} and timeout in {1,5} with one host on each port; the first one or two probes to every host lost; names whose last part contains further underscores; auto-connect to a device that accepts TCP and never answers with listening windows of 1/2/5 s (the device must still be reported); 2-4 discover_single calls (and optionally a broadcast discovery) in flight at overlapping times. Exhaustive: all 256 type bytes in "
        "both hex cases, boundary ids and ports, both versions, both listening ports. distinct = (reply fields); all non-trivial")
ASSUMPTIONS = ["a real device ignores header filler of the probe but not its length field, type bytes, signature or payload",
               "serial numbers and names are ASCII"]
# reach anchors: only entry points this check calls itself or callbacks the event loop needs (robust against internal refactors);
# that the mechanism was really exercised is demanded through MIN_NONTRIVIAL / MIN_HIST outcome counts
ANCHORS = ["discover.py:Discover.discover", "discover.py:Discover.discover_single", "discover.py:_DiscoverProtocol.datagram_received"]
MIN_NONTRIVIAL = {"quick": 1500, "thorough": 40000}
WORKERS = {"quick": 1, "thorough": 16}
EXHAUSTIVE = {t: ["all 256 appliance type bytes x {lower, upper} hex x {V2, V3}", "boundary device ids and ports", "both listening ports"]
              for t in ("quick", "thorough")}

IDS = [0, 1, 0xFF, 0x100, 0xFFFF, 0x10000, 2 ** 24 - 1, 2 ** 32 - 1, 2 ** 32, 2 ** 40 + 5, 2 ** 48 - 1]
PORTS = [1, 80, 6444, 6445, 255, 256, 65535]
SN_CHARS = "0123456789ABCDEFGHJKLMNPQRSTUVWXYZ"


def _host(rng, ip, **over):
    t = rng.randrange(256)
    h = {"ip": ip, "listen": rng.choice([6445, 20086]), "version": rng.choice([2, 3]), "id": rng.choice(IDS + [rng.getrandbits(48)]),
         "port": rng.choice(PORTS + [rng.randint(1, 65535)]), "sn": "".join(rng.choice(SN_CHARS) for _ in range(32)),
         "type": t, "upper": rng.random() < 0.5, "suffix": "".join(rng.choice("0123456789ABCDEF") for _ in range(rng.choice([4, 4, 6]))),
         "reported_ip": rng.choice([ip, ip, "192.168.1.77", "0.0.0.0"]), "tail": rng.randbytes(rng.choice([0, 0, 16, 70])),
         "dups": rng.choice([1, 1, 2])}
    h.update(over)
    return h


def generate(ctx, rng):
    quick = ctx.tier == "quick"
    n = 0
    # type bytes
    for t in range(256):
        for upper in (False, True):
            for version in (2, 3):
                n += 1
                yield ("type", t, upper, version), {"mode": "broadcast", "auto": False,
                                                    "hosts": [_host(rng, "10.0.0.%d" % (1 + n % 200), type=t, upper=upper, version=version)]}
    for did in IDS:
        for port in PORTS:
            n += 1
            yield ("idport", did, port), {"mode": "broadcast", "auto": False,
                                          "hosts": [_host(rng, "10.1.0.%d" % (1 + n % 200), id=did, port=port)]}
    for j in range(120 if quick else 37500):
        k = rng.randint(1, 4)
        hosts = [_host(rng, "10.2.%d.%d" % (j % 200, i + 1)) for i in range(k)]
        yield ("multi", j), {"mode": "broadcast", "auto": False, "hosts": hosts}
    for j in range(120 if quick else 62500):
        h = _host(rng, "10.3.0.%d" % (1 + j % 200))
        yield ("single", j), {"mode": "single", "auto": False, "hosts": [h, _host(rng, "10.3.1.9")],
                              "target": [None, "midea-ac.lan", "AC-Livingroom", None][j % 4]}
    # name / trailer lengths covering every residue of the decrypted payload length modulo the cipher block
    for nlen in range(0, 26):
        for tail in (0, 1, 7, 16, 70):
            for version in (2, 3):
                n += 1
                suffix = "".join(rng.choice("0123456789ABCDEF") for _ in range(nlen))
                yield ("namelen", nlen, tail, version), {"mode": "broadcast", "auto": False,
                      "hosts": [_host(rng, "10.6.0.%d" % (1 + n % 200), suffix=suffix, tail=rng.randbytes(tail), version=version)]}
    # the optional arguments: number of probes per port, listening window
    for pk in (1, 2, 5):
        for listen in (6445, 20086):
            for version in (2, 3):
                for tmo in (1, 5):
                    n += 1
                    yield ("packets", pk, listen, version, tmo), {"mode": "broadcast", "auto": False, "packets": pk, "timeout": tmo,
                          "hosts": [_host(rng, "10.7.0.%d" % (1 + n % 200), listen=listen, version=version),
                                    _host(rng, "10.7.1.%d" % (1 + n % 200), listen=26531 - listen, version=5 - version)]}
    # UDP loss: the first one or two probes to a host never arrive (the default is three probes per port)
    for lose in (1, 2):
        for listen in (6445, 20086):
            for version in (2, 3):
                for pk in (None, 5, lose + 1):
                    n += 1
                    yield ("lost", lose, listen, version, pk), {"mode": "broadcast", "auto": False, "packets": pk, "lose_first": lose,
                          "hosts": [_host(rng, "10.9.0.%d" % (1 + n % 200), listen=listen, version=version, dups=1),
                                    _host(rng, "10.9.1.%d" % (1 + n % 200), listen=26531 - listen, dups=1)]}
    # names whose last part contains further separators
    for j, suffix in enumerate(["1F_B4", "AC_01", "my_room", "_", "A__B", "00_ac_00", "e1_AC"]):
        for version in (2, 3):
            for t in (0xAC, 0xE1, 0x1F):
                n += 1
                yield ("suffix", j, version, t), {"mode": "broadcast", "auto": False,
                                                  "hosts": [_host(rng, "10.10.0.%d" % (1 + n % 200), suffix=suffix, version=version, type=t)]}
    # serial numbers and names that are valid UTF-8 but not ASCII (the library decodes both as UTF-8 text)
    for j, (sn_tail, suffix) in enumerate([("\u00c4\u00d6\u00fc", "1F2A"), ("", "B\u00fcro"), ("\u20ac\u20ac", "\u5ba2\u5385"), ("\u00e9", "caf\u00e9_01")]):
        for version in (2, 3):
            n += 1
            sn = "".join(rng.choice(SN_CHARS) for _ in range(32 - len(sn_tail.encode()))) + sn_tail
            yield ("utf8", j, version), {"mode": ["broadcast", "single"][j % 2], "auto": False,
                                         "hosts": [_host(rng, "10.12.0.%d" % (1 + n % 200), sn=sn, suffix=suffix, version=version, type=0xAC)]}
    # header fields a discovery client has no business reading (message id, timestamp, the bytes around the 48-bit id) are not zero
    for j in range(40 if quick else 6000):
        n += 1
        free = bytearray(rng.randbytes(26))
        if j % 4 == 0:
            free[12:14] = b"\x01\x00"
        elif j % 4 == 1:
            free[12:14] = b"\x00\x80"
        yield ("free-fields", j), {"mode": ["broadcast", "single"][j % 2], "auto": False,
                                   "hosts": [_host(rng, "10.14.0.%d" % (1 + n % 200), dups=1, free=bytes(free), id=rng.choice(IDS + [rng.getrandbits(48)]))]}
    # the wall clock is stepped (NTP correction, resume from suspend) while the discovery listens; one host is slow to answer
    for j in range(24 if quick else 3000):
        n += 1
        slow = _host(rng, "10.13.0.%d" % (1 + n % 200), dups=1, delay=rng.choice([1.7, 2.6, 3.9]))
        fast = _host(rng, "10.13.1.%d" % (1 + n % 200), dups=1)
        yield ("wallstep", j), {"mode": ["broadcast", "single"][j % 2], "auto": False, "hosts": [slow, fast] if j % 2 == 0 else [slow],
                                "wall_steps": [[rng.choice([0.3, 0.5, 1.2]), rng.choice([3600.0, -3600.0, 86400.0 * 400, 7.0, -7.0])]]}
    # auto-connect to a device that accepts the TCP connection and never answers, with short listening windows
    for j in range(12 if quick else 7500):
        h = _host(rng, "10.11.0.%d" % (1 + j % 200), version=2, type=0xAC, port=6444, dups=1)
        yield ("auto-silent", j), {"mode": ["broadcast", "single"][j % 2], "auto": True, "hosts": [h], "timeout": [1, 2, 5][j % 3], "silent_tcp": True}
    # several discoveries in flight at the same time (an application looking for its configured devices in parallel)
    for j in range(60 if quick else 62500):
        k = rng.randint(2, 4)
        hosts = [_host(rng, "10.8.%d.%d" % (j % 200, i + 1), dups=1) for i in range(k)]
        yield ("overlap", j), {"mode": "overlap", "auto": False, "hosts": hosts, "starts": [rng.choice([0.0, 0.0, 0.02, 0.3, 1.0]) for _ in range(k)],
                               "also_broadcast": j % 3 == 0}
    for j in range(80 if quick else 50000):
        h = _host(rng, "10.4.0.%d" % (1 + j % 200), version=2, type=rng.choice([0xAC, 0xAC, 0xA1]), port=rng.choice([6444, 7000]))
        yield ("auto", j), {"mode": rng.choice(["broadcast", "single"]), "auto": True, "hosts": [h]}
    for j in range(150 if quick else 1750000):
        yield ("rnd", j), {"mode": "broadcast", "auto": False, "hosts": [_host(rng, "10.5.%d.%d" % (rng.randrange(250), rng.randrange(1, 250)))]}


def _name(h):
    t = "%02X" % h["type"] if h["upper"] else "%02x" % h["type"]
    return f"net_{t}_{h['suffix']}"


def run_case(ctx, case):
    hosts = case["hosts"]
    net = H.new_net()
    sims = []
    tcp = {}
    target = case.get("target")
    for i, h in enumerate(hosts):
        payload = D.build_payload(h["reported_ip"], h["port"], h["sn"].encode(), _name(h).encode(), bytes(h["tail"]))
        reply = D.build_reply(h["version"], h["id"], payload, free=bytes(h["free"]) if h.get("free") else None)
        replies = [(0.05 * (i + 1) + 0.3 * d + h.get("delay", 0.0), None, reply) for d in range(h["dups"])]
        sims.append(SimHost(net, h["ip"], h["listen"], replies, names=([target] if (target and i == 0) else ()),
                            answer_every=case["mode"] == "overlap",      # several askers: the device answers each of them
                            lose_first=case.get("lose_first", 0)))
        if case["auto"]:
            tcp[h["ip"]] = SimDevice(net, host=h["ip"], port=h["port"], version=2, device_id=h["id"], ac=ACModel({"target_temperature": 26.5, "power": True}))
            if case.get("silent_tcp"):
                tcp[h["ip"]].on_exchange = lambda conn, req, packets, meta: []

    kw = {}
    if case.get("packets") is not None:
        kw["discovery_packets"] = case["packets"]
    if case.get("timeout") is not None:
        kw["timeout"] = case["timeout"]

    async def go(loop):
        from ..runtime import vloop
        for at, delta in case.get("wall_steps") or ():
            loop.call_later(at, vloop.wall_step, delta)          # the system clock is corrected while the discovery is listening
        if case["mode"] == "overlap":
            import asyncio

            async def single(h, start):
                await asyncio.sleep(start)
                return await Discover.discover_single(h["ip"], auto_connect=False)

            jobs = [single(h, st) for h, st in zip(hosts, case["starts"])]
            if case.get("also_broadcast"):
                jobs.append(Discover.discover(auto_connect=False))
            return await asyncio.gather(*jobs)
        if case["mode"] == "single":
            dev = await Discover.discover_single(target or hosts[0]["ip"], auto_connect=case["auto"])
            return [dev] if dev is not None else []
        return await Discover.discover(auto_connect=case["auto"], **kw)

    key = ("c17", repr(case.get("wall_steps")), tuple(h.get("delay") for h in hosts), case["mode"], case["auto"], case.get("target"), case.get("packets"), case.get("timeout"), case.get("lose_first"), case.get("silent_tcp"), tuple(case.get("starts") or ()), tuple((h["ip"], h["version"], h["id"], h["port"], h["sn"], _name(h), h["listen"]) for h in hosts))
    try:
        devs, loop = H.run_virtual(go, net)
    except Exception as e:  # noqa: BLE001
        ctx.count(key, kind="discover-raised")
        ctx.violation(f"discover-raises/{type(e).__name__}", f"{type(e).__name__}: {e}", case)
        return
    if case["mode"] == "overlap":
        # one result per discover_single, in order; each must be its own host
        results = devs
        ctx.count(key, kind="discover-overlapping", sample={"starts": case["starts"], "hosts": len(hosts), "also_broadcast": bool(case.get("also_broadcast"))})
        for h, d in zip(hosts, results):
            if d is None:
                ctx.violation("device-count", f"discover_single({h['ip']}) running next to other discoveries found nothing", case)
                continue
            exp = {"id": h["id"], "port": h["port"], "sn": h["sn"], "name": _name(h), "type": h["type"], "version": h["version"], "ip": h["ip"]}
            act = {"id": d.id, "port": d.port, "sn": d.sn, "name": d.name, "type": int(d.type), "version": d.version, "ip": d.ip}
            diff = {k: (exp[k], act[k]) for k in exp if exp[k] != act[k]}
            if diff:
                ctx.violation(f"identity/{sorted(diff)[0]}", f"discover_single({h['ip']}) running next to other discoveries reported {diff}", case)
        if case.get("also_broadcast"):
            ips = sorted(d.ip for d in results[-1])
            if ips != sorted(h["ip"] for h in hosts):
                ctx.violation("device-count", f"broadcast discovery running next to single-host discoveries reported {ips}", case)
        return
    expect_hosts = hosts[:1] if case["mode"] == "single" else hosts
    ctx.count(key, kind=f"discover-{case['mode']}", sample={"hosts": [{k: v for k, v in h.items() if k != "tail"} for h in hosts]} if len(hosts) > 1 else None)
    # the probe must be the one real devices answer, on both ports
    for s, h in zip(sims, hosts):
        if h in expect_hosts and s.probes_ok == 0:
            why = s.probes_rejected[:1] or ["no datagram reached port %d" % s.port]
            ctx.violation("probe-not-answerable", f"host {h['ip']}:{h['listen']} never received an acceptable probe: {why[0]}", case)
    by_ip = {}
    for d in devs:
        by_ip.setdefault(d.ip, []).append(d)
    for h in expect_hosts:
        got = by_ip.get(h["ip"], [])
        if len(got) != 1:
            ctx.violation("device-count", f"{len(got)} devices reported for host {h['ip']} (expected 1)", case)
            continue
        d = got[0]
        exp = {"id": h["id"], "port": h["port"], "sn": h["sn"], "name": _name(h), "type": h["type"], "version": h["version"], "ip": h["ip"]}
        act = {"id": d.id, "port": d.port, "sn": d.sn, "name": d.name, "type": int(d.type), "version": d.version, "ip": d.ip}
        diff = {k: (exp[k], act[k]) for k in exp if exp[k] != act[k]}
        if diff:
            ctx.violation(f"identity/{sorted(diff)[0]}", f"device at {h['ip']} reported with {diff}", case)
        is_ac = isinstance(d, AC)
        if is_ac != (h["type"] == 0xAC) or not isinstance(d, Device):
            ctx.violation("device-class", f"type 0x{h['type']:02X} instantiated as {type(d).__name__}", case)
        if case["auto"] and h["type"] == 0xAC and not case.get("silent_tcp"):
            if not d.online or d.target_temperature != 26.5:
                ctx.violation("auto-connect", f"auto_connect did not refresh the V2 air conditioner at {h['ip']}:{h['port']} (online={d.online})", case)
    extra = set(by_ip) - {h["ip"] for h in expect_hosts}
    if extra:
        ctx.violation("phantom-device", f"devices reported for addresses that did not answer: {sorted(extra)}", case)
