"""C09 - transport containment: peer bytes cause only protocol errors or timeouts."""
from __future__ import annotations

import asyncio

from .. import adversary as A
from .. import harness as H
from ..ref import acframe, v3
from ..simdev import SimDevice

from msmart.device import AirConditioner as AC
from msmart.device.AC.command import GetStateCommand
from msmart.lan import LAN, AuthenticationError, ProtocolError

ID = "C09"
LEVEL = "exploration"
RULE = ("a case = (entry point, protocol phase, adversarial byte string the simulated peer sends in place of - or before - its reply; "
        "retransmissions get the same bytes; one case in six the peer closes (FIN) or resets the connection right after them, and a close/reset alone or after a partial header is tried in every phase at every entry point). Strings come from grammar-aware mutation of valid V2/V3 traffic: every header field at "
        "boundary values with and without a recomputed signature, authentic packets whose header fields (message type, magic, message id, every byte of the timestamp incl. non-calendar values, device id, reserved) hold boundary values, correctly signed random/empty/mis-padded ciphertext, ciphertext lengths "
        "not a multiple of 16, correct SHA-256 tag over garbage, every type nibble 0..15 in every phase (pre-auth, handshake, data), size "
        "fields 0/65535, truncations, several packets per segment, floods of 300-3000 individually valid packets in one reply, random bytes. Allowed outcomes: LAN.send -> frames | ProtocolError | "
        "TimeoutError; LAN.authenticate -> return | ProtocolError | TimeoutError; Device.authenticate -> return | AuthenticationError; "
        "Device._send_command / AirConditioner.refresh / apply / get_capabilities / toggle_display (also when the V3 handshake happens implicitly inside them after a reconnect) -> return only. distinct = (entry point, phase, bytes); non-trivial = all")
ASSUMPTIONS = ["one item in four runs with max_connection_lifetime set to 1, 3 or 5 s, so that the lifetime elapses while the exchange is still waiting for the peer",
               "the peer controls bytes only (host names, key lengths and other caller inputs are not mutated)",
               "exceptions raised inside data_received are recorded (evidence) but only judged through what escapes the entry point"]
ANCHORS = ["lan.py:_Packet.decode", "lan.py:_LanProtocolV3._process_packet", "lan.py:_LanProtocolV3._decode_encrypted_response",
           "lan.py:LAN.send", "lan.py:LAN.authenticate", "base_device.py:Device._send_command", "base_device.py:Device.authenticate"]
MIN_NONTRIVIAL = {"quick": 8000, "thorough": 150000}
WORKERS = {"quick": 1, "thorough": 16}
EXHAUSTIVE = {t: ["type nibbles 0..15 x 6 body shapes x phases {pre-auth, handshake, data}", "length-field boundary values x {plain, re-signed, signed for the sliced view}",
                  "signed-garbage ciphertext catalogue", "pad nibbles 0..15 under a valid tag"] for t in ("quick", "thorough")}

TOKEN = bytes(range(64))
KEY = bytes(range(200, 232))
NONCE = bytes(range(100, 132))
SKEY = v3.session_key(KEY, NONCE)
BATCH = 48

V2_DRIVERS = ["v2/lan.send", "v2/refresh", "v2/_send_command", "v2/apply", "v2/caps", "v2/toggle", "v2/lan.send-twice-id0", "v2/lan.send-retries1"]
V3_PRE_DRIVERS = ["v3hs/lan.authenticate", "v3hs/dev.authenticate", "v3pre/unsolicited", "v3hs/send-implicit-auth",
                  "v3hs/refresh-implicit-auth", "v3hs/apply-implicit-auth", "v3hs/lan.authenticate-retries1", "v3hs/lan.authenticate-retries2"]
V3_DATA_DRIVERS = ["v3data/lan.send", "v3data/refresh", "v3data/apply", "v3data/caps"]


def _items(ctx, rng):
    quick = ctx.tier == "quick"
    v2s = list(A.v2_structured(rng))
    for label, b in v2s:
        for d in V2_DRIVERS:
            yield d, label, b
        # the same adversarial V2 bytes under a valid V3 tag
        for d in V3_DATA_DRIVERS:
            yield d, "v3-valid-tag-over-" + label, A.v3_wrap(SKEY, b, rng.randrange(65536))
    for label, b in A.v3_outer_structured(rng, None):
        for d in V3_PRE_DRIVERS:
            yield d, label, b
    for label, b in A.v3_outer_structured(rng, SKEY):
        for d in V3_DATA_DRIVERS:
            yield d, label, b
    # V3 bytes on a V2 connection and vice versa
    for label, b in list(A.v3_outer_structured(rng, None))[::7]:
        yield "v2/lan.send", "cross-" + label, b
    for label, b in v2s[::5]:
        yield "v3hs/lan.authenticate", "cross-" + label, b
    n = 6000 if quick else 2250000
    for _ in range(n):
        r = rng.random()
        if r < 0.35:
            label, b = A.v2_random(rng)
            yield rng.choice(V2_DRIVERS), label, b
        elif r < 0.6:
            label, b = A.v3_random(rng, None)
            yield rng.choice(V3_PRE_DRIVERS), label, b
        else:
            label, b = A.v3_random(rng, SKEY)
            yield rng.choice(V3_DATA_DRIVERS), label, b
    # several adversarial strings in one reply
    for _ in range(600 if quick else 180000):
        parts = [A.v3_random(rng, SKEY) for _ in range(rng.randint(2, 4))]
        yield rng.choice(V3_DATA_DRIVERS), "multi:" + "+".join(p[0] for p in parts), b"".join(p[1] for p in parts)
        parts = [A.v2_random(rng) for _ in range(rng.randint(2, 3))]
        yield rng.choice(V2_DRIVERS), "multi:" + "+".join(p[0] for p in parts), b"".join(p[1] for p in parts)


def generate(ctx, rng):
    groups = {}
    n = 0
    k = 0
    for driver, label, b in _items(ctx, rng):
        g = groups.setdefault(driver, [])
        k += 1
        # the peer may also close (FIN) or reset the connection right after its bytes, while the caller is waiting
        then = None if k % 6 else ("fin" if k % 12 else "rst")
        # configuration: a maximum connection lifetime short enough to elapse while an exchange is still waiting
        life = [1, 3, 5][k % 3] if k % 4 == 1 else None
        g.append({"label": label + ("+" + then if then else ""), "bytes": b, "then": then, "lifetime": life})
        if len(g) == BATCH:
            yield ("b", n), {"driver": driver, "items": g}
            n += 1
            groups[driver] = []
    for driver, g in groups.items():
        if g:
            yield ("b", n), {"driver": driver, "items": g}
            n += 1
    # volume: thousands of (individually harmless) packets in one reply
    from ..ref import v2 as _v2
    floods = {"flood-empty-frames": _v2.build(b"", 7), "flood-valid-frames": _v2.build(A.GOOD_FRAME, 7), "flood-one-byte-frames": _v2.build(b"\xaa", 7)}
    for name, pkt in floods.items():
        for count in (300, 1200, 3000):
            yield ("flood", name, count, "v2"), {"driver": "v2/lan.send", "items": [{"label": name, "bytes": pkt, "then": None, "repeat": count}]}
            yield ("flood", name, count, "v2r"), {"driver": "v2/refresh", "items": [{"label": name, "bytes": pkt, "then": None, "repeat": count}]}
            yield ("flood", name, count, "v3"), {"driver": "v3data/lan.send", "items": [{"label": name, "bytes": A.v3_wrap(SKEY, pkt, 9), "then": None, "repeat": count}]}
    # the implicit handshake (inside send / refresh / apply) is answered genuinely, and the peer's next bytes arrive before, during or
    # right after the pause the client makes after a handshake
    late = [("error-packet", v3.build_error(0)), ("error-packet-ctr", v3.build_error(77)), ("garbage", bytes(range(9, 60))), ("marker-only", b"\x83\x70"),
            ("v2-packet", _v2.build(A.GOOD_FRAME, 7)), ("enc-garbage", A.v3_wrap(bytes(32), _v2.build(A.GOOD_FRAME, 7), 3)), ("enc-good", A.v3_wrap(SKEY, _v2.build(A.GOOD_FRAME, 7), 1)),
            ("handshake-reply-again", None), ("short", b"\x83\x70\x00\x08\x20\x0f\x00\x00"), ("zeros", bytes(40))]
    for driver in ("v3hs/send-implicit-auth", "v3hs/refresh-implicit-auth", "v3hs/apply-implicit-auth"):
        items = []
        for label, b in late:
            for after in (0.0, 0.3, 0.97, 1.0 + 1e-7, 1.2):
                items.append({"label": f"after-reply/{label}", "bytes": b if b is not None else b"", "then": None, "after": after, "again": b is None})
        for i in range(0, len(items), BATCH):
            yield ("late", driver, i), {"driver": driver, "items": items[i:i + BATCH]}
    # nothing but a close / reset in place of the reply, in every phase and at every entry point
    for driver in V2_DRIVERS + V3_PRE_DRIVERS + V3_DATA_DRIVERS:
        yield ("close", driver), {"driver": driver, "items": [{"label": "silent", "bytes": b"", "then": None, "lifetime": lt} for lt in (None, 1, 3, 5)] +
                                  [{"label": "close-only+" + t, "bytes": b"", "then": t} for t in ("fin", "rst")] +
                                  [{"label": "partial+" + t, "bytes": bb, "then": t} for t in ("fin", "rst")
                                   for bb in (b"\x83\x70\x00\x40\x20", b"\x5a\x5a\x01\x11\x68\x00", b"\x83")]}


def _allowed(driver: str):
    ep = driver.split("/")[1]
    if ep in ("lan.send", "send-implicit-auth", "lan.send-twice-id0", "lan.send-retries1"):
        return (ProtocolError, TimeoutError), True
    if ep in ("lan.authenticate", "unsolicited", "lan.authenticate-retries1", "lan.authenticate-retries2"):
        return (ProtocolError, TimeoutError), True
    if ep == "dev.authenticate":
        return (AuthenticationError,), True
    return (), True      # refresh / _send_command: nothing may escape


def run_case(ctx, case):
    driver = case["driver"]
    phase, ep = driver.split("/")
    version = 2 if phase == "v2" else 3
    net = H.new_net()
    dev = SimDevice(net, version=version, token=TOKEN, key=KEY, device_id=0 if ep.endswith("id0") else 0xC09)
    dev.nonce_source = lambda: NONCE
    cur = {"bytes": None, "hs": None, "unsolicited": None, "then": None}

    def acts(b):
        if cur.get("repeat"):
            return [(0, b)] * cur["repeat"]          # each its own segment, all at the same instant
        return ([(0, b)] if b else []) + ([(0, cur["then"])] if cur["then"] else [])

    def on_exchange(conn, req, packets, meta):
        if cur["bytes"] is None:
            return None
        return acts(cur["bytes"])

    def on_handshake(conn, ok, reply, info):
        if cur["unsolicited"] is not None:
            return [(0, cur["unsolicited"]), (0, reply)] + ([(0, cur["then"])] if cur["then"] else [])
        if cur.get("after") is not None and ok:
            d, b, again = cur["after"]
            cur["after"] = None
            return [(0, reply), (d, reply if again else b)]
        if cur["hs"] is None:
            return None
        return acts(cur["hs"])

    dev.on_exchange = on_exchange
    dev.on_handshake = on_handshake
    out = []

    async def one(it):
        adv = bytes(it["bytes"])
        cur.update(bytes=None, hs=None, unsolicited=None, then=None, repeat=None, after=None)
        ac = AC(ip=dev.host, port=dev.port, device_id=dev.device_id)
        lan = ac._lan
        if it.get("lifetime"):
            ac.set_max_connection_lifetime(it["lifetime"])
        if phase == "v3data":
            await ac.authenticate(TOKEN, KEY)
            cur["bytes"] = adv
        elif phase == "v2":
            cur["bytes"] = adv
        elif ep.endswith("-implicit-auth"):
            await ac.authenticate(TOKEN, KEY)
            for c in dev.conns:
                if not c.closed:
                    c.emit([(0, "fin")])
            for _ in range(3):
                await asyncio.sleep(0)
            if it.get("after") is not None:
                cur["after"] = (it["after"], adv, bool(it.get("again")))
            else:
                cur["hs"] = adv
        elif ep == "unsolicited":
            cur["unsolicited"] = adv
        else:
            cur["hs"] = adv
        cur["then"] = it.get("then")
        cur["repeat"] = it.get("repeat")
        if ep == "lan.send-twice-id0":
            # a client that does not know the device's id (0, the command line default): the peer's bytes, then a normal exchange
            try:
                await lan.send(acframe.state_query())
            except (ProtocolError, TimeoutError):
                pass
            cur.update(bytes=None, then=None)
            return await lan.send(acframe.state_query(2))
        if ep == "lan.send-retries1":
            return await lan.send(acframe.state_query(), retries=1)
        if ep.startswith("lan.authenticate-retries"):
            return await lan.authenticate(TOKEN, KEY, retries=int(ep[-1]))
        if ep in ("lan.send", "send-implicit-auth"):
            return await lan.send(acframe.state_query())
        if ep in ("refresh", "refresh-implicit-auth"):
            return await ac.refresh()
        if ep in ("apply", "apply-implicit-auth"):
            return await ac.apply()
        if ep == "caps":
            return await ac.get_capabilities()
        if ep == "toggle":
            return await ac.toggle_display()
        if ep == "_send_command":
            return await ac._send_command(GetStateCommand())
        if ep in ("lan.authenticate", "unsolicited"):
            return await lan.authenticate(TOKEN, KEY)
        return await ac.authenticate(TOKEN, KEY)

    async def go(loop):
        for it in case["items"]:
            n_unh = len(loop.unhandled)
            try:
                await one(it)
                out.append((it, None, len(loop.unhandled) - n_unh))
            except (KeyboardInterrupt, SystemExit):
                raise
            except BaseException as e:  # noqa: BLE001
                out.append((it, e, len(loop.unhandled) - n_unh))

    H.run_virtual(go, net)
    allowed, _ = _allowed(driver)
    for it, exc, unh in out:
        b = bytes(it["bytes"])
        label = it["label"]
        outcome = "returned" if exc is None else ("allowed-" + type(exc).__name__ if isinstance(exc, allowed) else "ESCAPED-" + type(exc).__name__)
        ctx.count((driver, b, it.get("repeat")), kind=f"{driver}:{outcome}", sample={"driver": driver, "label": label, "bytes": b, "outcome": outcome})
        if unh:
            ctx.bump("exceptions-inside-protocol-callbacks", unh)
        if exc is not None and not isinstance(exc, allowed):
            base = label.split(":")[0] if label.startswith("multi") else label
            ctx.violation(f"{type(exc).__name__}/{ep}/{_klass(base)}", f"{type(exc).__name__}: {exc} escaped {ep} in phase {phase} for peer bytes of class {label}",
                          {"driver": driver, "items": [it]})


def _klass(label: str) -> str:
    """Coarse class for mechanism keys (no values)."""
    for k in ("signed-bad-ciphertext", "length-field", "ciphertext-unaligned", "valid-tag", "type-", "size", "truncated", "random", "marker"):
        if k in label:
            return k.rstrip("-")
    return label[:24]
