"""C02 - V2 packet codec interoperates (differential against mv.ref.v2)."""
from __future__ import annotations

import datetime as dt

from .. import harness as H
from ..ref import v2
from ..ref.prim import RefError
from ..runtime import vloop
from ..simdev import SimDevice

from msmart.lan import LAN, _Packet

ID = "C02"
LEVEL = "exploration"
RULE = ("cases = (direction, frame length, frame bytes, device id, virtual wall-clock instant / header filler); "
        "encode: msmart's packet must parse under the independent reference (marker, LE length == size, 40-byte header, "
        "id at 20..27 LE, PKCS7/AES-128-ECB under md5(SIGN_KEY), keyed MD5) to the identical frame and id; "
        "decode: a reference-built packet with arbitrary header filler must decode to the identical frame; "
        "wire: the same through LAN.send on a simulated V2 connection, including retransmissions after the device dropped the first one or two transmissions; pair: 2-4 LAN objects with their own devices at overlapping times, some retransmitting after another object encoded; bulk: 70000 (thorough 140000) packets encoded in one process, each parsed by the reference; a packet returned by encode is unchanged by later encodes. distinct = distinct (direction,len,id,instant,frame hash); "
        "every case is non-trivial (a full encode/parse or build/decode)")
ASSUMPTIONS = ["reference V2 implementation in mv/ref/v2.py is a correct reading of the packet overview",
               "AES block primitive = pycryptodome raw ECB, cross-checked against a pure-Python AES and openssl at setup",
               "timestamp *content* is not judged (statement is silent); only that it never disturbs the codec"]
ANCHORS = ["lan.py:_Packet.encode", "lan.py:_Packet.decode", "lan.py:LAN.send"]
MIN_NONTRIVIAL = {"quick": 2000, "thorough": 50000}
WORKERS = {"quick": 1, "thorough": 16}
EXHAUSTIVE = {"quick": ["frame lengths 0..255 x boundary device ids (encode and decode)"],
              "thorough": ["frame lengths 0..255 x boundary device ids (encode and decode)"]}

BOUNDARY_IDS = [0, 1, 0xFF, 0x100, 0xFFFF, 0x10000, 2 ** 32 - 1, 2 ** 32, 2 ** 32 + 1, 2 ** 48 - 1, 2 ** 48,
                2 ** 56 - 1, 2 ** 63 - 1, 2 ** 63, 2 ** 64 - 2, 2 ** 64 - 1]
EPOCHS = [(1, 1, 1, 0, 0, 0, 0), (1999, 12, 31, 23, 59, 59, 999999), (2000, 1, 1, 0, 0, 0, 0),
          (2024, 2, 29, 12, 30, 15, 500000), (2099, 12, 31, 23, 59, 59, 990000), (9999, 12, 31, 23, 59, 59, 999999),
          (2038, 1, 19, 3, 14, 7, 0), (1970, 1, 1, 0, 0, 0, 0)]


def _rand_epoch(rng):
    return (rng.randint(1, 9999), rng.randint(1, 12), rng.randint(1, 28), rng.randint(0, 23), rng.randint(0, 59),
            rng.randint(0, 59), rng.randint(0, 999999))


def generate(ctx, rng):
    n_rand = 2500 if ctx.tier == "quick" else 4000000
    n_wire = 300 if ctx.tier == "quick" else 100000
    # exhaustive lengths x boundary ids
    i = 0
    for L in range(256):
        for did in BOUNDARY_IDS:
            frame = rng.randbytes(L)
            ep = EPOCHS[i % len(EPOCHS)]
            i += 1
            yield ("enc", L, did, ep, i), {"kind": "enc", "frame": frame, "id": did, "epoch": ep}
            filler = {"msg_type": rng.randbytes(2), "magic": rng.randbytes(2), "msg_id": rng.randbytes(4),
                      "timestamp": rng.randbytes(8), "reserved": rng.randbytes(12)}
            yield ("dec", L, did, i), {"kind": "dec", "frame": frame, "id": did, "filler": filler}
    for j in range(n_rand):
        L = rng.randint(0, 255)
        frame = rng.randbytes(L)
        did = rng.getrandbits(rng.choice([8, 16, 32, 48, 64]))
        ep = _rand_epoch(rng)
        yield ("enc-r", j), {"kind": "enc", "frame": frame, "id": did, "epoch": ep}
        filler = {"msg_type": rng.randbytes(2), "magic": rng.randbytes(2), "msg_id": rng.randbytes(4),
                  "timestamp": rng.randbytes(8), "reserved": rng.randbytes(12)}
        yield ("dec-r", j), {"kind": "dec", "frame": frame, "id": did, "filler": filler}
    for j in range(4 if ctx.tier == "quick" else 60):
        yield ("wire-session", j), {"kind": "wire-session", "frame": b"", "id": rng.choice(BOUNDARY_IDS), "n": 300, "sseed": rng.getrandbits(32),
                                    "epoch": _rand_epoch(rng)}
    # the device also pushes packets of its own between two requests (each must come back from the next send(), in order)
    for j in range(6 if ctx.tier == "quick" else 600):
        yield ("wire-session-push", j), {"kind": "wire-session", "frame": b"", "id": rng.choice(BOUNDARY_IDS), "n": 30, "sseed": rng.getrandbits(32),
                                         "epoch": _rand_epoch(rng), "push": True}
    # the id the client was configured with need not be the id the device puts into its own packets (0 = "unknown" is the
    # command line tool's default): every request must still carry the configured id
    for j in range(16 if ctx.tier == "quick" else 2000):
        yield ("wire-session-foreign-id", j), {"kind": "wire-session", "frame": b"", "id": [0, 0, 1, 2 ** 48 - 1][j % 4], "n": 12, "sseed": rng.getrandbits(32),
                                               "epoch": _rand_epoch(rng), "reply_id": rng.choice([rng.getrandbits(48) | 1, 2 ** 64 - 1, 2 ** 63, 0x5A5A])}
    # a long-running process: more packets than any 16-bit counter holds, all in this process
    yield ("bulk", 0), {"kind": "bulk", "frame": b"", "id": 1, "n": 70000 if ctx.tier == "quick" else 700000, "sseed": rng.getrandbits(32)}
    # two LAN objects (two devices) working at the same time; one of them has to retransmit
    for j in range(40 if ctx.tier == "quick" else 10000):
        yield ("pair", j), {"kind": "pair", "frame": b"", "id": 1, "sseed": rng.getrandbits(32), "n": rng.randint(2, 4),
                            "drops": [rng.choice([0, 1, 2]) for _ in range(4)], "offsets": [rng.choice([0.0, 0.3, 0.5, 1.9, 2.1, 2.5]) for _ in range(4)]}
    # boundary response lengths (0, 1, block edges, 255) at every position of a 1-3 response exchange
    edge = [0, 1, 15, 16, 17, 255]
    combos = [[a] for a in edge] + [[a, b] for a in edge for b in edge] + [[rng.choice(edge), 0, rng.choice(edge)] for _ in range(12)] + \
             [[0, 0, 0], [0, 0], [5, 0, 0], [0, 5, 0]]
    for j, lens in enumerate(combos):
        yield ("wire-edge", j), {"kind": "wire", "frame": rng.randbytes(rng.choice(edge)), "id": rng.choice(BOUNDARY_IDS),
                                 "responses": [rng.randbytes(n) for n in lens], "epoch": _rand_epoch(rng), "drop_first": 0}
    # many responses to one request (each its own segment), and a peer that answers and closes the connection at once
    for j, nresp in enumerate([15, 16, 17, 18, 31, 32, 33, 64, 65, 100, 257]):
        yield ("wire-many", j), {"kind": "wire", "frame": rng.randbytes(9), "id": rng.choice(BOUNDARY_IDS), "epoch": _rand_epoch(rng), "drop_first": 0,
                                 "responses": [bytes([k & 0xFF, k >> 8]) + rng.randbytes(rng.randint(0, 30)) for k in range(nresp)]}
    for j in range(24 if ctx.tier == "quick" else 600):
        yield ("wire-close", j), {"kind": "wire", "frame": rng.randbytes(rng.randint(0, 40)), "id": rng.choice(BOUNDARY_IDS), "epoch": _rand_epoch(rng),
                                  "drop_first": 0, "responses": [rng.randbytes(rng.randint(0, 60)) for _ in range(rng.choice([1, 1, 2]))],
                                  "then": rng.choice(["fin", "rst"])}
    # frames and responses that look like something else: they begin like a V2 packet, a V3 packet, a frame, an XML document,
    # or are themselves a complete encoded packet
    looks = [b"\x5a\x5a", b"\x5a\x5a\x01\x11", b"\x83\x70", b"\xaa", b"<", b"ERROR", b"\x00", b"\x5a", b"\x5a\x5a\x5a\x5a"]
    for j, head in enumerate(looks):
        for tail in (0, 1, 38, 100):
            body = head + rng.randbytes(tail)
            yield ("wire-looks", j, tail), {"kind": "wire", "frame": body, "id": rng.choice(BOUNDARY_IDS), "epoch": _rand_epoch(rng), "drop_first": j % 2,
                                            "responses": [rng.choice(looks) + rng.randbytes(tail), body]}
    pk = v2.build(rng.randbytes(20), 77)
    yield ("wire-looks", "packet"), {"kind": "wire", "frame": pk, "id": 5, "epoch": _rand_epoch(rng), "drop_first": 0, "responses": [pk, pk[:40]]}
    for j in range(n_wire):
        L = j % 256 if j < 256 else rng.randint(0, 255)
        nresp = rng.choice([1, 1, 2, 3])
        yield ("wire", j), {"kind": "wire", "frame": rng.randbytes(L), "id": rng.choice(BOUNDARY_IDS + [rng.getrandbits(64)]),
                            "responses": [rng.randbytes(rng.randint(0, 255)) for _ in range(nresp)],
                            "epoch": _rand_epoch(rng), "drop_first": [0, 0, 0, 1, 2][j % 5]}


def _wire_session(ctx, case):
    """Many frames through ONE LAN object / connection: every packet on the wire must parse to its frame and id."""
    import random
    r = random.Random(case["sseed"])
    did = case["id"]
    net = H.new_net()
    dev = SimDevice(net, version=2, device_id=did & (2 ** 64 - 1))
    seen = []
    rid = case.get("reply_id", did)
    pushed = {}       # exchange index -> frames the device pushes on its own a moment after that exchange's reply

    def on_exchange(conn, req, packets, meta):
        seen.append((req, meta["v2"]["device_id"]))
        acts = [(0, v2.build(req[::-1], rid))]
        if case.get("push") and len(seen) % 3 == 1:
            extra = [r.randbytes(r.choice([0, 1, 16, 33])) for _ in range(r.randint(1, 3))]
            pushed[len(seen)] = extra
            acts += [(0.05 + 0.01 * j, v2.build(x, rid)) for j, x in enumerate(extra)]
        return acts

    dev.on_exchange = on_exchange
    frames = [r.randbytes(r.choice([0, 1, 15, 16, 17, 31, 32, 33, 47, 48, 64, 100, 255])) for _ in range(case["n"])]
    got_all = []

    async def go(loop):
        import asyncio
        lan = LAN(dev.host, dev.port, did)
        for i, f in enumerate(frames):
            got_all.append(await lan.send(f))
            if case.get("push"):
                await asyncio.sleep(0.3)          # the reports pushed after the reply have all arrived before the next request
            if i % 50 == 49:
                await asyncio.sleep(r.choice([0.5, 3600, 86400 * 30]))

    try:
        H.run_virtual(go, net, epoch=_epoch(tuple(case["epoch"])))
    except Exception as e:  # noqa: BLE001
        ctx.count(("wire-session", case["sseed"]), kind="wire-session-raised")
        ctx.violation("wire-raises", f"send {len(got_all)} of a long V2 session raised {type(e).__name__}: {e}", case)
        return
    for i, f in enumerate(frames):
        ctx.count(("wire-session", case["sseed"], i), kind="wire-session-send")
        if i >= len(seen) or seen[i] != (f, did):
            ctx.violation("wire-request-mismatch", f"send {i} of a session decodes to a different frame/id on the device", case)
            break
        # frames the device pushed between two requests are what the next send() returns first, then its own reply
        want = list(pushed.get(i, [])) + [f[::-1]]
        if [bytes(x) for x in got_all[i]] != want:
            ctx.violation("wire-response-mismatch", f"send {i} of a session returned different frames than the device sent "
                          f"({len(got_all[i])} frames, the device produced {len(want)} since the previous send)", case)
            break


_PREV = [None, None]


def _bulk(ctx, case):
    """n packets encoded in one process (device ids and frame lengths cycling), each parsed by the reference."""
    import random
    r = random.Random(case["sseed"])
    ids = [r.getrandbits(48) for _ in range(3)]
    vloop.set_active(None, _epoch((2024, 5, 5, 5, 5, 5, 5)))
    bad = 0
    for i in range(case["n"]):
        frame = bytes([i & 0xFF, (i >> 8) & 0xFF]) * (i % 18)
        did = ids[i % 3]
        try:
            pkt = _Packet.encode(did, frame)
            info = v2.parse(bytes(pkt))
            ok = info["frame"] == frame and info["device_id"] == did
            why = "parses to a different frame/id"
        except Exception as e:  # noqa: BLE001
            ok, why = False, f"{type(e).__name__}: {e}"
        if not ok:
            bad += 1
            ctx.violation("bulk-encode", f"packet number {i + 1} encoded in this process: {why}", case)
            if bad > 3:
                break
    ctx.count(("bulk", case["n"]), kind="bulk-run")
    ctx.bump("bulk-packets-encoded", case["n"])


def _pair(ctx, case):
    """Several LAN objects talking to their own devices at overlapping times; some transmissions are dropped so that a
    LAN retransmits after another LAN has encoded its own packet."""
    import asyncio
    import random
    r = random.Random(case["sseed"])
    net = H.new_net()
    n = case["n"]
    devs, seen, frames, ids = [], [], [], []
    for k in range(n):
        did = r.getrandbits(r.choice([16, 40, 48, 64]))
        dev = SimDevice(net, host=f"10.2.0.{k + 1}", version=2, device_id=did)
        log = []

        def on_exchange(conn, req, packets, meta, log=log, k=k, did=did):
            log.append((req, meta["v2"]["device_id"]))
            if len(log) <= case["drops"][k]:
                return []
            return [(0, v2.build(req[::-1], did))]

        dev.on_exchange = on_exchange
        devs.append(dev)
        seen.append(log)
        ids.append(did)
        frames.append(r.randbytes(r.choice([0, 5, 16, 33, 70])))
    got = [None] * n

    async def one(k):
        await asyncio.sleep(case["offsets"][k])
        lan = LAN(devs[k].host, devs[k].port, ids[k])
        got[k] = await lan.send(frames[k])

    async def go(loop):
        await asyncio.gather(*[one(k) for k in range(n)])

    key = ("pair", case["sseed"])
    try:
        H.run_virtual(go, net)
    except Exception as e:  # noqa: BLE001
        ctx.count(key, kind="pair-raised")
        ctx.violation("wire-raises", f"concurrent LAN objects: {type(e).__name__}: {e}", case)
        return
    ctx.count(key, kind="pair", sample={k: case[k] for k in ("n", "drops", "offsets")})
    for k in range(n):
        for i, sn in enumerate(seen[k]):
            if sn != (frames[k], ids[k]):
                ctx.violation("wire-request-mismatch" if i == 0 else "wire-retransmission-mismatch",
                              f"device {k} transmission {i} decodes to another frame/id than its LAN object sent "
                              f"({'another LAN object\'s' if sn in [(frames[j], ids[j]) for j in range(n) if j != k] else 'unknown'})", case)
                break
        if len(seen[k]) != case["drops"][k] + 1:
            ctx.violation("wire-transmission-count", f"device {k}: {len(seen[k])} well-formed transmissions, expected {case['drops'][k] + 1}", case)
        if [bytes(x) for x in (got[k] or [])] != [frames[k][::-1]]:
            ctx.violation("wire-response-mismatch", f"LAN object {k} returned different frames than its device sent", case)


def _epoch(ep):
    return dt.datetime(*ep, tzinfo=dt.timezone.utc)


def run_case(ctx, case):
    kind = case["kind"]
    frame = bytes(case["frame"])
    did = case["id"]
    if kind == "enc":
        vloop.set_active(None, _epoch(tuple(case["epoch"])))
        try:
            pkt = _Packet.encode(did, frame)
        except Exception as e:  # noqa: BLE001
            ctx.count(("enc", len(frame), did, tuple(case["epoch"])), kind="enc-raised")
            ctx.violation("encode-raises", f"_Packet.encode raised {type(e).__name__}: {e}", case)
            return
        ctx.count(("enc", len(frame), did, tuple(case["epoch"]), hash(frame)), kind="enc", sample=case)
        # value semantics: the packet returned by the previous encode is still what it was
        if _PREV[0] is not None and bytes(_PREV[0]) != _PREV[1]:
            ctx.violation("encode-aliases-earlier-packet", "a later encode changed the packet returned by an earlier one", case)
        _PREV[0], _PREV[1] = pkt, bytes(pkt)
        try:
            info = v2.parse(pkt)
        except RefError as e:
            ctx.violation("encode-not-parseable", f"independent parser rejects msmart packet: {e}", case, {"packet": pkt})
            return
        if info["frame"] != frame:
            ctx.violation("encode-frame-mismatch", "independent parser decodes a different frame", case,
                          {"packet": pkt, "got": info["frame"]})
        if info["device_id"] != did:
            ctx.violation("encode-id-mismatch", f"device id decodes to {info['device_id']}", case, {"packet": pkt})
        if len(pkt) != 40 + 16 * (len(frame) // 16 + 1) + 16:
            ctx.violation("encode-size", f"unexpected packet size {len(pkt)}", case)
    elif kind == "dec":
        pkt = v2.build(frame, did, **{k: bytes(v) for k, v in case["filler"].items()})
        ctx.count(("dec", len(frame), did, hash(pkt)), kind="dec", sample=case)
        try:
            got = _Packet.decode(pkt)
        except Exception as e:  # noqa: BLE001
            ctx.violation("decode-raises", f"_Packet.decode raised {type(e).__name__}: {e} on an authentic packet", case,
                          {"packet": pkt})
            return
        if bytes(got) != frame:
            ctx.violation("decode-frame-mismatch", "decoded frame differs from the one packed", case,
                          {"packet": pkt, "got": bytes(got)})
    elif kind == "wire-session":
        _wire_session(ctx, case)
    elif kind == "bulk":
        _bulk(ctx, case)
    elif kind == "pair":
        _pair(ctx, case)
    else:
        _wire(ctx, case, frame, did)


def _wire(ctx, case, frame, did):
    net = H.new_net()
    dev = SimDevice(net, version=2, device_id=did & (2 ** 64 - 1))
    responses = [bytes(r) for r in case["responses"]]
    seen = []

    def on_exchange(conn, req_frame, packets, meta):
        seen.append((req_frame, meta["v2"]["device_id"]))
        if len(seen) <= case.get("drop_first", 0):
            return []          # this transmission is lost: the client must retransmit the same frame
        return [(0, v2.build(r, did, msg_id=bytes([i & 0xFF, 0, 0, 0]))) for i, r in enumerate(responses)] + ([(0, case["then"])] if case.get("then") else [])

    dev.on_exchange = on_exchange

    async def go(loop):
        lan = LAN(dev.host, dev.port, did)
        return await lan.send(frame)

    ctx.count(("wire", len(frame), did, hash(frame), hash(tuple(responses))), kind="wire", sample=case)
    try:
        got, loop = H.run_virtual(go, net, epoch=_epoch(tuple(case["epoch"])))
    except Exception as e:  # noqa: BLE001
        ctx.violation("wire-raises", f"LAN.send raised {type(e).__name__}: {e} against a well-behaved V2 device", case,
                      {"device_events": [ev[:4] for ev in dev.events[:6]]})
        return
    if not seen:
        ctx.violation("wire-request-not-accepted", "device could not parse what LAN.send wrote", case,
                      {"device_events": [ev[:5] for ev in dev.events[:6]]})
        return
    for i, sn in enumerate(seen):
        if sn[0] != frame or sn[1] != did:
            ctx.violation("wire-request-mismatch" if i == 0 else "wire-retransmission-mismatch",
                          f"transmission {i} decodes to a different frame/id than was sent ({len(sn[0])} bytes)", case, {"seen": sn})
            break
    if len(seen) != case.get("drop_first", 0) + 1:
        ctx.violation("wire-transmission-count", f"{len(seen)} well-formed transmissions seen, expected {case.get('drop_first', 0) + 1}", case,
                      {"device_events": [ev[:5] for ev in dev.events if ev[1] == "pkt"][:6]})
    if [bytes(g) for g in got] != responses:
        ctx.violation("wire-response-mismatch", "frames returned by LAN.send differ from the frames the device sent", case,
                      {"got": [bytes(g) for g in got]})
