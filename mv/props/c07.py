"""C07 - V3 session discipline: no data before handshake, right key, bounded counter, expiry => re-handshake."""
from __future__ import annotations

import asyncio
import itertools

from .. import harness as H
from ..ref import acframe, v3
from ..simdev import SimDevice

from msmart.lan import LAN, ProtocolError

ID = "C07"
LEVEL = "exploration"
RULE = ("a case = one event history over {send, explicit authenticate (good / token the device rejects), exchange with a silent device, "
        "exchange answered by an error packet, peer close, peer close + refused reconnect, clock jump < 12 h, clock jump > 12 h, clock jump "
        "> configured connection lifetime, cancelled exchange}, run after an initial successful authenticate against a simulated V3 device "
        "with max_connection_lifetime in {None, 30 s, 1 h, 13 h}, and closed by a plain send. An offline checker over the device's wire log "
        "(every packet per connection, decoded with the device's own keys) joined with the harness call log requires: first packet of every "
        "connection is a handshake request; its token is the configured one (or the one offered by the explicit call in progress); no data "
        "packet before an accepted handshake on that connection; every data packet verifies under the key of the latest accepted handshake "
        "of its connection; counters of consecutive packets on a connection advance by one from 0 (wrap only to 0 at a constant modulus "
        "<= 65536); an exchange starting > 12 h after the last handshake continues with a handshake, and one starting > lifetime after the "
        "connection was opened never uses that connection again. Plus one long session (> 4096 packets quick, > 65536 thorough) on a single "
        "connection. distinct = (history, lifetime); non-trivial = histories with >= 1 letter")
ASSUMPTIONS = ["histories start with an explicit authenticate (the library learns the device is V3 from that call); it succeeds at once, or its first attempts fail at the TCP level (refused / hanging connect), possibly followed by sends made without credentials - nothing but handshake requests may reach the device then",
               "max_connection_lifetime is configured before the first connection and may be applied again (same value) while connected",
               "'bad credentials' = a token the device rejects; a wrong *key* with an accepted token (device rotates, client refuses) is not judged",
               "event instants are offset by irrational-ish idle times so that no exchange starts exactly on an expiry instant"]
# reach anchors: only entry points this check calls itself or callbacks the event loop needs (robust against internal refactors);
# that the mechanism was really exercised is demanded through MIN_NONTRIVIAL / MIN_HIST outcome counts
ANCHORS = ["lan.py:LAN.send", "lan.py:LAN.authenticate"]
MIN_NONTRIVIAL = {"quick": 1500, "thorough": 30000}
MIN_HIST = {"quick": {"expiry-12h-judged": 60, "lifetime-judged": 100, "long-session-packets": 4500},
            "thorough": {"expiry-12h-judged": 2000, "lifetime-judged": 2000, "long-session-packets": 66000}}
WORKERS = {"quick": 1, "thorough": 16}
EXHAUSTIVE = {"quick": ["all histories of depth <= 3 over the 13-letter alphabet (lifetime rotating), depth <= 2 x all 4 lifetimes"],
              "thorough": ["all histories of depth <= 4 over the 13-letter alphabet (lifetime rotating), depth <= 3 x all 4 lifetimes"]}

LETTERS = ["send", "auth_good", "auth_bad_token", "send_silent", "send_error", "fin", "fin_refuse_send", "jump_small", "jump12",
           "jump_life", "send_cancel", "auth_abandoned_then_auth", "set_lifetime"]
LIFETIMES = [None, 30, 3600, 46800]
H12 = 12 * 3600
TOKEN = bytes(range(1, 65))
KEY = bytes(range(50, 82))
BAD_TOKEN = bytes(reversed(TOKEN))
IDLE = 0.0713
CANCEL_AT = 0.3307


def generate(ctx, rng):
    quick = ctx.tier == "quick"
    dmax = 3 if quick else 4
    i = 0
    for d in range(0, dmax + 1):
        for hist in itertools.product(range(len(LETTERS)), repeat=d):
            lt = LIFETIMES[i % 4]
            i += 1
            yield ("h", hist, lt), {"kind": "history", "letters": [LETTERS[x] for x in hist], "lifetime": lt}
    for d in range(1, dmax):
        for hist in itertools.product(range(len(LETTERS)), repeat=d):
            for lt in LIFETIMES:
                yield ("h", hist, lt), {"kind": "history", "letters": [LETTERS[x] for x in hist], "lifetime": lt}
    # directed: periodic use at intervals below 12 h whose sum exceeds 12 h since the last handshake
    directed = [["jump_7h", "send", "jump_7h"], ["jump_5h", "send", "jump_5h", "send", "jump_5h"], ["jump_small", "send"] * 13,
                ["jump_7h", "auth_good", "jump_7h", "send", "jump_7h"], ["jump_5h", "send_error", "jump_5h", "send", "jump_5h"],
                ["jump_7h", "send", "jump_5h", "send", "jump_small"], ["jump_5h"] * 3, ["jump_7h", "fin", "jump_7h"],
                ["jump_7h", "auth_bad_token", "jump_7h"], ["send"] * 5 + ["jump_7h", "send", "jump_7h"],
                ["jump_25h"], ["jump_49h"], ["send", "jump_25h", "send", "jump_49h"], ["set_lifetime", "jump_life"],
                ["send", "set_lifetime", "jump_life", "send", "set_lifetime", "jump_small", "jump_life"],
                # new connections are refused for a while although the old one is still open (the unit's listener is busy)
                ["jump_life", "send_refused", "send"], ["send", "jump_life", "send_refused", "send_refused", "send"], ["jump12", "send_refused", "send"],
                ["jump_small", "send_refused", "jump_life", "send_refused"],
                # the application copies / pickles its (currently disconnected) object and goes on with the copy
                ["send_error", "copy", "send"], ["send_silent", "copy", "send", "jump12", "send"], ["send_cancel", "copy", "jump_life", "send"],
                ["send_error", "copy", "send_error", "copy", "send"], ["copy", "send"]]
    for i, h in enumerate(directed):
        for lt in (None, 46800, 3600):
            yield ("d", i, lt), {"kind": "history", "letters": h, "lifetime": lt}
    extra = LETTERS + ["jump_5h", "jump_7h", "jump_25h", "jump_49h", "send_refused", "copy"]
    for j in range(300 if quick else 240000):
        d = rng.randint(4, 12 if quick else 25)
        yield ("r", j), {"kind": "history", "letters": [rng.choice(extra) for _ in range(d)], "lifetime": rng.choice(LIFETIMES)}
    # the very first authentication attempts fail at the TCP level (refused / no answer) before anything else happens
    for j, (pre, letters) in enumerate(itertools.product(
            [["auth_refused"], ["auth_refused", "send"], ["auth_hang"], ["auth_refused", "auth_refused", "send"], ["auth_hang", "send"], ["auth_refused", "send", "send"]],
            [[], ["send"], ["jump_small", "send"], ["fin", "send"], ["auth_good"]])):
        yield ("pre", j), {"kind": "history", "letters": letters, "lifetime": LIFETIMES[j % 4], "pre": pre}
    # the process runs in a local time zone with daylight saving, and the clock crosses a DST change inside an expiry window
    zones = [("CET-1CEST,M3.5.0,M10.5.0/3", (2026, 10, 24, 20, 0, 0)), ("CET-1CEST,M3.5.0,M10.5.0/3", (2026, 3, 28, 19, 30, 0)),
             ("EST5EDT,M3.2.0,M11.1.0", (2026, 10, 31, 20, 0, 0)), ("AEST-10AEDT,M10.1.0,M4.1.0/3", (2026, 4, 4, 9, 0, 0)), ("UTC0", (2026, 6, 1, 0, 0, 0))]
    tz_hist = [["jump12", "send"], ["jump_12h30", "send"], ["jump_11h30", "send", "jump_small"], ["jump_life", "send", "jump_12h30"], ["send", "jump_12h30", "send", "jump_11h30"]]
    for zi, (tz, ep) in enumerate(zones):
        for hi, h in enumerate(tz_hist):
            yield ("tz", zi, hi), {"kind": "history", "letters": h, "lifetime": [None, 3600, 46800][(zi + hi) % 3], "tz": tz, "epoch": list(ep)}
    # credentials of particular shapes given to Device.authenticate (bytes or hex text): the handshake must carry exactly that token
    shapes = [(b" ", b"\n"), (b"\t", b""), (b"", b" "), (b"\r\n", b"\r\n"), (b"\x0b", b"\x0c"), (b"\x00", b""), (b"", b"\x00"), (b"0x", b""), (b"'", b"'"),
              (b'"', b'"'), (b"\xff", b"\xff"), (b"  ", b"  ")]
    for j, (head, tail) in enumerate(shapes * (1 if quick else 40)):
        mid = rng.randbytes(64 - len(head) - len(tail))
        kmid = rng.randbytes(30)
        yield ("tokenshape", j), {"kind": "tokenshape", "token": head + mid + tail, "key": (head[:1] or b"k") + kmid + (tail[-1:] or b"k"),
                                  "form": ["bytes", "hex", "HEX", "hex-padded"][j % 4]}
    yield ("long",), {"kind": "long", "n": 5000 if quick else 280000}


def _tokenshape(ctx, case):
    from msmart.device import AirConditioner as AC
    token, key = bytes(case["token"]), bytes(case["key"])
    net = H.new_net()
    dev = SimDevice(net, version=3, token=token, key=key, device_id=0xC07)
    form = case["form"]
    if form == "bytes":
        targ, karg = token, key
    elif form == "HEX":
        targ, karg = token.hex().upper(), key.hex().upper()
    elif form == "hex-padded":
        targ, karg = " " + token.hex() + "\n", key.hex() + " "          # bytes.fromhex() skips ASCII whitespace
    else:
        targ, karg = token.hex(), key.hex()

    async def go(loop):
        ac = AC(ip=dev.host, port=dev.port, device_id=dev.device_id)
        await ac.authenticate(targ, karg)
        await ac.refresh()
        await asyncio.sleep(H12 + 99.1)
        await ac.refresh()
        return ac.online

    k = ("tokenshape", token[:2], token[-2:], form)
    try:
        online, _ = H.run_virtual(go, net)
    except Exception as e:  # noqa: BLE001
        ctx.count(k, kind="tokenshape-raised")
        seen = [h[2] for h in dev.handshakes]
        if any(t != token for t in seen):
            ctx.violation("wrong-token", f"handshake carried a token that is not the configured one ({len(seen[0])} bytes for a {len(token)}-byte token)", case)
        else:
            ctx.violation(f"history-raises/{type(e).__name__}", f"authenticate/refresh with a {form} token raised {type(e).__name__}: {e}", case)
        return
    ctx.count(k, kind="tokenshape")
    for h in dev.handshakes:
        if h[2] != token:
            ctx.violation("wrong-token", "handshake carried a token that is not the configured one", case, {"sent": h[2]})
            break
    if len(dev.handshakes) < 2 or not online:
        ctx.violation("auth-expiry-ignored" if online else "history-raises/offline", f"{len(dev.handshakes)} handshakes over a 12 h gap, online={online}", case)
    _check(ctx, {**case, "letters": [], "lifetime": None}, dev, net, [], [], None, token=token)


def run_case(ctx, case):
    if case["kind"] == "long":
        return _long(ctx, case)
    if case["kind"] == "tokenshape":
        return _tokenshape(ctx, case)
    letters = case["letters"]
    lifetime = case["lifetime"]
    net = H.new_net()
    dev = SimDevice(net, version=3, token=TOKEN, key=KEY, device_id=0xC07)
    mode = {"m": "normal"}

    def on_handshake(conn, ok, reply, info):
        if mode.get("slow_hs") and ok:
            mode["slow_hs"] = False
            return [(0.6, reply)]        # this reply arrives after the caller has given up
        return None

    dev.on_handshake = on_handshake

    def on_exchange(conn, req, packets, meta):
        if mode["m"] == "silent":
            return []
        if mode["m"] == "error":
            return [(0, v3.build_error(0))]
        return None

    dev.on_exchange = on_exchange
    calls = []
    windows = []     # (t0, t1) during which BAD_TOKEN is the offered token
    ncopy = {"n": 0}

    async def op(loop, lan, letter, coro_fn):
        t0 = loop.time()
        try:
            await coro_fn()
            res = "ok"
        except (KeyboardInterrupt, SystemExit):
            raise
        except BaseException as e:  # noqa: BLE001
            res = type(e).__name__
        calls.append((t0, loop.time(), letter, res))

    async def go(loop):
        lan = LAN(dev.host, dev.port, dev.device_id)
        if lifetime is not None:
            lan.max_connection_lifetime = lifetime
        await asyncio.sleep(IDLE)
        q = acframe.state_query()
        for letter in case.get("pre", []):
            # before any successful authentication: a refused / hanging connect, a send without credentials
            if letter in ("auth_refused", "auth_hang"):
                dev.connect_script = ["refuse" if letter == "auth_refused" else "hang"]
                await op(loop, lan, "pre_" + letter, lambda: lan.authenticate(TOKEN, KEY))
                dev.connect_script = []
            else:
                await op(loop, lan, "pre_send", lambda: lan.send(q))
            await asyncio.sleep(IDLE)
        await op(loop, lan, "auth_initial", lambda: lan.authenticate(TOKEN, KEY))
        for letter in letters + ["send"]:
            await asyncio.sleep(IDLE)
            mode["m"] = "normal"
            if letter == "send":
                await op(loop, lan, letter, lambda: lan.send(q))
            elif letter == "auth_good":
                await op(loop, lan, letter, lambda: lan.authenticate(TOKEN, KEY))
            elif letter == "auth_bad_token":
                t0 = loop.time()
                await op(loop, lan, letter, lambda: lan.authenticate(BAD_TOKEN, KEY))
                windows.append((t0, loop.time()))
            elif letter == "send_silent":
                mode["m"] = "silent"
                await op(loop, lan, letter, lambda: lan.send(q))
            elif letter == "send_error":
                mode["m"] = "error"
                await op(loop, lan, letter, lambda: lan.send(q))
            elif letter in ("fin", "fin_refuse_send"):
                for c in dev.conns:
                    if not c.closed:
                        c.emit([(0, "fin")])
                for _ in range(3):
                    await asyncio.sleep(0)
                calls.append((loop.time(), loop.time(), "fin", "ok"))
                if letter == "fin_refuse_send":
                    dev.connect_script = ["refuse"]
                    await op(loop, lan, letter, lambda: lan.send(q))
                    dev.connect_script = []
            elif letter == "send_refused":
                dev.connect_script = ["refuse"] * 4
                await op(loop, lan, "send_refused", lambda: lan.send(q))
                dev.connect_script = []
            elif letter == "copy":
                # only while the object holds no connection (a live transport cannot be copied, with or without the library's help)
                if getattr(lan, "_protocol", "?") is None:
                    import copy as _copy
                    import pickle as _pickle
                    ncopy["n"] += 1
                    try:
                        lan = _copy.deepcopy(lan) if ncopy["n"] % 2 else _pickle.loads(_pickle.dumps(lan))
                    except Exception:  # noqa: BLE001
                        # the object cannot be copied (e.g. it holds a lock): nothing promises that it can - the application
                        # goes on with the original
                        ncopy["refused"] = ncopy.get("refused", 0) + 1
            elif letter == "set_lifetime":
                # the application applies its configuration again (same value) while the connection is alive
                lan.max_connection_lifetime = lifetime
            elif letter == "jump_12h30":
                await asyncio.sleep(H12 + 1800 + 0.77)
            elif letter == "jump_11h30":
                await asyncio.sleep(H12 - 1800 + 0.33)
            elif letter == "jump_25h":
                await asyncio.sleep(25 * 3600 + 1.11)
            elif letter == "jump_49h":
                await asyncio.sleep(49 * 3600 + 1800 + 2.22)
            elif letter == "jump_small":
                await asyncio.sleep(3600 + 7.77)
            elif letter == "jump_5h":
                await asyncio.sleep(5 * 3600 + 3.21)
            elif letter == "jump_7h":
                await asyncio.sleep(7 * 3600 + 5.43)
            elif letter == "jump12":
                await asyncio.sleep(H12 + 120.31)
            elif letter == "jump_life":
                await asyncio.sleep((lifetime or 600) + 120.53)
            elif letter == "auth_abandoned_then_auth":
                # an explicit authenticate is abandoned (cancelled) while the device's reply is still on its way; the reply then
                # arrives; the caller authenticates again on the same connection
                mode["slow_hs"] = True

                async def abandoned():
                    task = asyncio.ensure_future(lan.authenticate(TOKEN, KEY))
                    await asyncio.sleep(0.2)
                    task.cancel()
                    await task
                await op(loop, lan, "auth_abandoned", abandoned)
                await asyncio.sleep(0.73)
                mode["slow_hs"] = False
                await op(loop, lan, "auth_good", lambda: lan.authenticate(TOKEN, KEY))
            elif letter == "send_cancel":
                mode["m"] = "silent"

                async def cancelled():
                    task = asyncio.ensure_future(lan.send(q))
                    await asyncio.sleep(CANCEL_AT)
                    task.cancel()
                    await task
                await op(loop, lan, letter, cancelled)
        return True

    import datetime as _dt
    import os as _os
    import time as _time
    old_tz = _os.environ.get("TZ")
    epoch = _dt.datetime(*case["epoch"], tzinfo=_dt.timezone.utc) if case.get("epoch") else _dt.datetime(2024, 1, 1, tzinfo=_dt.timezone.utc)
    if case.get("tz"):
        _os.environ["TZ"] = case["tz"]
        _time.tzset()
        ctx.bump("histories-in-a-dst-time-zone")
    try:
        _, loop = H.run_virtual(go, net, epoch=epoch)
    except Exception as e:  # noqa: BLE001
        ctx.count(("hist", tuple(letters), lifetime), kind="history-harness-failed")
        ctx.violation(f"history-raises/{type(e).__name__}", f"history aborted with {type(e).__name__}: {e}", case)
        return
    finally:
        if case.get("tz"):
            if old_tz is None:
                _os.environ.pop("TZ", None)
            else:
                _os.environ["TZ"] = old_tz
            _time.tzset()
    ctx.count(("hist", tuple(letters), lifetime, case.get("tz"), tuple(case.get("epoch") or ())), nontrivial=len(letters) > 0, kind=f"history-depth-{min(len(letters), 5)}",
              sample={"letters": letters, "lifetime": lifetime, "calls": [(round(c[0], 3), c[2], c[3]) for c in calls]} if len(letters) == 3 else None)
    ctx.bump("objects-replaced-by-a-copy", ncopy["n"] - ncopy.get("refused", 0))
    ctx.bump("copies-the-object-refused (not judged)", ncopy.get("refused", 0))
    _check(ctx, case, dev, net, calls, windows, lifetime)
    # the closing plain send against a healthy device must succeed (recovery is C08's business; recorded only)
    if calls and calls[-1][3] != "ok":
        ctx.bump("final-send-failed(recorded)")


def _conn_packets(dev):
    """conn_id -> ordered list of dicts describing every packet the device received."""
    per = {}
    opened = {}
    for ev in dev.events:
        t, kind = ev[0], ev[1]
        if kind == "conn" and ev[3] == "open":
            opened[ev[2]] = t
            per.setdefault(ev[2], [])
        elif kind == "pkt":
            cid, pk = ev[2], ev[3]
            if pk == "hs-req":
                per.setdefault(cid, []).append({"t": t, "kind": "hs", "token": bytes(ev[4]), "counter": ev[5], "accepted": ev[6]})
            elif pk == "data":
                per.setdefault(cid, []).append({"t": t, "kind": "data", "counter": ev[5], "key_gen": ev[6]})
            elif pk == "bad_data":
                per.setdefault(cid, []).append({"t": t, "kind": "bad_data", "why": ev[4], "counter": None})
            elif pk == "junk-preauth":
                raw = bytes(ev[4])
                per.setdefault(cid, []).append({"t": t, "kind": "preauth", "ptype": raw[5] & 0xF if len(raw) > 5 else None, "counter": None})
            elif pk == "bad_hs":
                per.setdefault(cid, []).append({"t": t, "kind": "bad_hs", "why": ev[4], "counter": None})
    return per, opened


def _check(ctx, case, dev, net, calls, windows, lifetime, modulus_state=None, token=None):
    per, opened = _conn_packets(dev)
    TOKEN = token if token is not None else globals()["TOKEN"]
    ms = modulus_state if modulus_state is not None else {"W": None}
    last_hs_ok = {}
    for cid, pkts in per.items():
        expected = 0
        authed = False
        for i, p in enumerate(pkts):
            # --- first packet / pre-auth discipline
            if i == 0 and p["kind"] != "hs":
                ctx.violation("first-packet-not-handshake", f"first packet on connection {cid} is {p['kind']}", case)
            if p["kind"] == "preauth":
                ctx.violation("data-before-handshake", f"non-handshake packet (type {p['ptype']}) before a successful handshake on connection {cid}", case)
            if p["kind"] == "data" and not authed:
                ctx.violation("data-before-handshake", f"data packet accepted before any handshake on connection {cid}", case)
            if p["kind"] == "bad_data":
                ctx.violation("wrong-session-key", f"data packet on connection {cid} does not verify under the latest handshake's key: {p['why']}", case)
            if p["kind"] == "bad_hs":
                ctx.violation("malformed-handshake", f"malformed handshake request: {p['why']}", case)
            # --- token
            if p["kind"] == "hs":
                in_window = any(a - 1e-9 <= p["t"] <= b + 1e-9 for a, b in windows)
                if p["token"] != TOKEN and not (in_window and p["token"] == BAD_TOKEN):
                    ctx.violation("wrong-token", f"handshake on connection {cid} carried a token that is not the configured one", case,
                                  {"token": p["token"], "in_explicit_bad_token_call": in_window})
                if p["accepted"]:
                    authed = True
                    last_hs_ok.setdefault(cid, []).append(p["t"])
            # --- counter
            if p["counter"] is not None:
                c = p["counter"]
                if c != expected:
                    if c == 0 and expected > 1 and (ms["W"] is None or ms["W"] == expected):
                        if expected > 65536:
                            ctx.violation("counter-modulus", f"counter wrapped at {expected} > 65536", case)
                        ms["W"] = expected
                        ctx.bump("counter-wraps-observed")
                    else:
                        ctx.violation("counter-step", f"packet counter {c} follows {expected - 1} on connection {cid} (expected {expected})", case)
                elif ms["W"] is not None and expected >= ms["W"]:
                    ctx.violation("counter-modulus", f"counter reached {expected} although it wrapped at {ms['W']} before", case)
                expected = c + 1
                ctx.bump("counter-steps-checked")
            else:
                expected += 1
    # --- expiry rules joined with the call log
    order = sorted(opened.items(), key=lambda kv: kv[1])
    for (t0, t1, letter, res) in calls:
        if not letter.startswith("send") and letter != "fin_refuse_send" and not (letter.startswith("auth") and letter != "auth_initial"):
            continue
        is_auth = letter.startswith("auth")
        cur = [cid for cid, to in order if to < t0]
        if not cur:
            continue
        cid = cur[-1]
        t_open = opened[cid]
        later = [p for p in per.get(cid, []) if p["t"] >= t0 - 1e-9]
        if lifetime is not None:
            d = t0 - t_open
            if abs(d - lifetime) > 1e-3:
                if d > lifetime:
                    ctx.bump("lifetime-judged")
                    if later:
                        ctx.violation("connection-lifetime-ignored", f"exchange started {d:.1f}s after connection {cid} was opened "
                                      f"(lifetime {lifetime}s) but the connection was used again", case, {"letter": letter})
                        continue
        if is_auth:
            continue          # an explicit authenticate always begins with a handshake; only the connection rule applies to it
        hs = [t for t in last_hs_ok.get(cid, []) if t < t0 - 1e-9]
        # what the exchange put on the wire first - on the connection it found, or on one it opened instead (both are allowed
        # after the authentication lifetime; a new connection starts with a handshake anyway)
        during = sorted((p for c2, pk in per.items() for p in pk if t0 - 1e-9 <= p["t"] <= t1 + 1e-9), key=lambda p: p["t"])
        if hs and during:
            d = t0 - hs[-1]
            if abs(d - H12) > 1e-3 and d > H12:
                ctx.bump("expiry-12h-judged")
                if during[0]["kind"] != "hs":
                    ctx.violation("auth-expiry-ignored", f"exchange started {d:.0f}s after the last handshake on connection {cid} "
                                  f"but its first packet was {during[0]['kind']}", case, {"letter": letter})


def _long(ctx, case):
    n = case["n"]
    net = H.new_net()
    dev = SimDevice(net, version=3, token=TOKEN, key=KEY, device_id=0xC07)
    q = acframe.state_query()
    fails = []

    async def go(loop):
        lan = LAN(dev.host, dev.port, dev.device_id)
        await lan.authenticate(TOKEN, KEY)
        for i in range(n):
            try:
                await lan.send(q)
            except (KeyboardInterrupt, SystemExit):
                raise
            except BaseException as e:  # noqa: BLE001
                fails.append((i, e))
                if len(fails) > 3:
                    return
        # ... and then the session key expires on this long-lived connection: the re-handshake's counter continues the sequence
        for jump in (H12 + 77.7, 5.5, H12 + 3.3):
            await asyncio.sleep(jump)
            for _ in range(3):
                await lan.send(q)
        await lan.authenticate(TOKEN, KEY)
        await lan.send(q)

    try:
        H.run_virtual(go, net)
    except Exception as e:  # noqa: BLE001
        ctx.violation(f"long-session-raises/{type(e).__name__}", f"long session aborted: {type(e).__name__}: {e}", case)
        return
    ctx.count(("long", n), kind="long-session", sample={"packets": n, "connections": len(dev.conns)})
    ctx.bump("long-session-packets", sum(1 for ev in dev.events if ev[1] == "pkt"))
    for i, e in fails[:1]:
        ctx.violation(f"long-session-exchange-failed/{type(e).__name__}", f"exchange {i} of a long session failed: {type(e).__name__}: {e}", case)
    if len(dev.conns) != 1 and not fails and False:
        ctx.violation("long-session-reconnected", f"{len(dev.conns)} connections were used for an uninterrupted session", case)
    _check(ctx, case, dev, net, [], [], None)
