"""C03 - V2 packet integrity: altered or truncated packets are rejected, never mis-decoded."""
from __future__ import annotations

from .. import harness as H
from ..ref import v2
from ..simdev import SimDevice

from msmart.lan import LAN, ProtocolError, _Packet

ID = "C03"
LEVEL = "fault_enumeration"
RULE = ("for authentic reference-built packets of chosen frame lengths: every single-bit flip at every bit position, every "
        "truncation length 0..n-1, all 255 substitutions of each start-marker / length-field byte, a catalogue of 16-bit length values (alone and with a corrupted payload byte), single-byte substitutions, random multi-byte corruptions, fed to _Packet.decode (and a sample "
        "through LAN.send with the simulated device sending the corrupted packet, on V2 connections and tunnelled inside correctly tagged V3 encrypted responses, as the reply to the first transmission or to a retransmission after 1-2 lost ones, or arriving on its own after a genuine reply so that the next exchange finds it queued). A sample of flips and truncations is repeated in a child interpreter started with -O. Wire cases also run with a connection lifetime that elapses while a slow corrupted reply is awaited. An authentic packet followed in the same chunk by other bytes (random, a second packet with or without its header, validly padded cipher blocks) must give a protocol error or exactly the signed frame. The authentic packet itself is accepted first and again every three corruptions (a receiver that remembers what it verified must still reject altered copies). Outcome classes: ProtocolError (required), "
        "frame returned / other exception (violation). A corruption the reference still accepts as authentic is skipped and counted. "
        "distinct = (frame length, fault kind, position, value); all are non-trivial (the packet differs from an authentic one)")
ASSUMPTIONS = ["a corruption producing a valid keyed MD5 by chance is skipped (none observed)",
               "mv/ref/v2.py builds authentic packets (cross-checked by C02 against msmart's decoder)"]
ANCHORS = ["lan.py:_Packet.decode", "lan.py:LAN.send"]
MIN_NONTRIVIAL = {"quick": 300000, "thorough": 10000000}
WORKERS = {"quick": 1, "thorough": 16}
EXHAUSTIVE = {"quick": ["all single-bit flips and all truncations for every frame length 0..255"],
              "thorough": ["all single-bit flips and all truncations for every frame length 0..255",
                           "all 255 substitute values at every byte position for every frame length 0..255"]}

Q_LENGTHS = [0, 1, 15, 16, 17, 31, 32, 34, 255]


def generate(ctx, rng):
    quick = ctx.tier == "quick"
    for L in range(256):
        frame = rng.randbytes(L)
        did = rng.getrandbits(64)
        filler = {"msg_id": rng.randbytes(4), "timestamp": rng.randbytes(8)}
        base = {"frame": frame, "id": did, "filler": filler}
        yield ("flip", L), {**base, "fault": "bitflips"}
        yield ("trunc", L), {**base, "fault": "truncations"}
        if quick:
            if L in Q_LENGTHS:
                yield ("subst", L), {**base, "fault": "subst", "values": sorted(rng.sample(range(1, 256), 16))}
        elif L in Q_LENGTHS:
            # split full substitution tables over several cases so shards share the work
            for part in range(8):
                yield ("subst", L, part), {**base, "fault": "subst", "values": list(range(1 + part, 256, 8))}
        else:
            for part in range(4):
                yield ("subst", L, part), {**base, "fault": "subst", "values": list(range(1 + part, 256, 4))}
        yield ("multi", L), {**base, "fault": "multi", "n": 40 if quick else 60000, "mseed": rng.getrandbits(32)}
        # every value of each byte of the start marker / length field, and a catalogue of 16-bit length values
        yield ("lenfield", L), {**base, "fault": "lenfield"}
        # bytes that follow an authentic packet in the same chunk (they are not covered by its signature)
        yield ("tail", L), {**base, "fault": "tail", "mseed": rng.getrandbits(32)}
    n_wire = 300 if quick else 120000
    # the same decoder in an interpreter started with -O (assert statements compiled out): a configuration some deployments use
    yield ("optimized-interpreter",), {"frame": b"", "id": 1, "filler": {}, "fault": "optimized", "mseed": rng.getrandbits(32)}
    for j in range(n_wire):
        L = rng.choice(Q_LENGTHS)
        yield ("wire", j), {"frame": rng.randbytes(L), "id": rng.getrandbits(48), "filler": {}, "fault": "wire",
                            "wkind": rng.choice(["flip", "trunc", "subst", "multi", "len0"]), "mseed": rng.getrandbits(32),
                            "version": 2 if j % 2 else 3, "drop_first": [0, 0, 0, 1, 2][j % 5],
                            "position": "late-extra" if j % 7 == 3 else "reply",
                            # configuration: a connection lifetime that elapses while the (slow, corrupted) reply is awaited
                            "lifetime": [None, None, 1, 30][j % 4], "reply_delay": [0.0, 1.3][(j // 4) % 2]}


_since_authentic = [0]


def _accept_authentic(ctx, case, orig_frame, pkt):
    """The authentic packet is accepted first (and again every few corruptions): a receiver that remembers what it has
    verified must still reject an altered copy that arrives afterwards."""
    try:
        got = _Packet.decode(pkt)
    except Exception as e:  # noqa: BLE001
        ctx.violation("authentic-rejected", f"authentic packet rejected: {type(e).__name__}: {e}", case, {"packet": pkt})
        return
    if bytes(got) != orig_frame:
        ctx.violation("authentic-mis-decoded", "authentic packet decoded to a different frame", case, {"packet": pkt})
    ctx.bump("authentic-accepted-before-corruptions")


def _judge(ctx, case, orig_frame, pkt, corrupted, what):
    """Decode one corrupted packet and classify the outcome."""
    _since_authentic[0] += 1
    if _since_authentic[0] >= 3:
        _since_authentic[0] = 0
        _accept_authentic(ctx, case, orig_frame, pkt)
    if v2.is_authentic(corrupted):
        ctx.skip("corruption-still-authentic")
        return
    key = (len(orig_frame), what)
    try:
        got = _Packet.decode(corrupted)
    except ProtocolError:
        ctx.count(key, kind="protocol-error")
        return
    except Exception as e:  # noqa: BLE001
        ctx.count(key, kind="other-exception")
        ctx.violation("other-exception", f"{type(e).__name__} instead of a protocol error for fault {what}", case,
                      {"fault": what, "corrupted": corrupted, "exc": e})
        return
    ctx.count(key, kind="frame-returned")
    if bytes(got) == orig_frame:
        ctx.violation("altered-packet-accepted", f"altered packet accepted (fault {what})", case,
                      {"fault": what, "corrupted": corrupted})
    else:
        ctx.violation("mis-decoded", f"altered packet decoded to a different frame (fault {what})", case,
                      {"fault": what, "corrupted": corrupted, "got": bytes(got)})


def run_case(ctx, case):
    import random
    frame = bytes(case["frame"])
    pkt = v2.build(frame, case["id"], **{k: bytes(v) for k, v in case["filler"].items()})
    fault = case["fault"]
    if ctx.evaluations == 0 or fault == "bitflips" and len(frame) == 17:
        ctx.count(None, nontrivial=False, kind="sample-holder", sample={"fault": fault, "frame_len": len(frame), "packet": pkt})
    if fault != "wire":
        _accept_authentic(ctx, case, frame, pkt)
        _since_authentic[0] = 0
    if fault == "bitflips":
        for pos in range(len(pkt)):
            for bit in range(8):
                c = bytearray(pkt)
                c[pos] ^= 1 << bit
                _judge(ctx, case, frame, pkt, bytes(c), ("flip", pos, bit))
    elif fault == "truncations":
        for n in range(len(pkt)):
            _judge(ctx, case, frame, pkt, pkt[:n], ("trunc", n))
    elif fault == "subst":
        for pos in range(len(pkt)):
            for val in case["values"]:
                c = bytearray(pkt)
                c[pos] ^= val          # xor with non-zero => all other byte values
                _judge(ctx, case, frame, pkt, bytes(c), ("subst", pos, val))
    elif fault == "lenfield":
        for pos in (0, 1, 4, 5):
            for x in range(1, 256):
                c = bytearray(pkt)
                c[pos] ^= x
                _judge(ctx, case, frame, pkt, bytes(c), ("subst", pos, x))
        n = len(pkt)
        for val in (0, 1, 15, 16, 17, 32, 39, 40, 41, 55, 56, 57, n - 32, n - 17, n - 16, n - 15, n - 1, n + 1, n + 16, 255, 256, 0x100 | (n & 0xFF), 65535):
            val &= 0xFFFF
            if val == n:
                continue
            c = bytearray(pkt)
            c[4:6] = val.to_bytes(2, "little")
            _judge(ctx, case, frame, pkt, bytes(c), ("length", val))
            # ... combined with one corrupted payload byte (a skipped signature check would mis-decode)
            if n > 60:
                c[44] ^= 0x5A
                _judge(ctx, case, frame, pkt, bytes(c), ("length+payload", val))
    elif fault == "tail":
        _tails(ctx, case, frame, pkt)
    elif fault == "optimized":
        _optimized(ctx, case)
    elif fault == "multi":
        r = random.Random(case["mseed"])
        for i in range(case["n"]):
            c = bytearray(pkt)
            style = r.randrange(4)
            if style == 0:          # a few random bytes
                for _ in range(r.randint(2, 6)):
                    c[r.randrange(len(c))] ^= r.randint(1, 255)
            elif style == 1:        # a burst
                s = r.randrange(len(c))
                for k in range(s, min(len(c), s + r.randint(2, 24))):
                    c[k] = r.randrange(256)
            elif style == 2:        # swap two 16-byte blocks of ciphertext / tail
                a, b = r.randrange(len(c) // 16), r.randrange(len(c) // 16)
                c[16 * a:16 * a + 16], c[16 * b:16 * b + 16] = c[16 * b:16 * b + 16], c[16 * a:16 * a + 16]
            else:                   # truncate and flip
                c = c[:r.randint(6, len(c))]
                c[r.randrange(len(c))] ^= r.randint(1, 255)
            if bytes(c) == pkt:
                continue
            _judge(ctx, case, frame, pkt, bytes(c), ("multi", case["mseed"], i))
    elif fault == "wire":
        _wire(ctx, case, frame, pkt)


_OPT_SCRIPT = r"""
import json, random, sys
assert False or True
from mv import harness              # imports msmart from $MSMART_VERIF_REPO, as every check does
from mv.ref import v2
from msmart.lan import ProtocolError, _Packet
r = random.Random(int(sys.argv[1]))
bad, n = [], 0
for L in (0, 5, 16, 33, 104):
    frame = r.randbytes(L)
    pkt = v2.build(frame, r.getrandbits(48))
    if bytes(_Packet.decode(pkt)) != frame:
        bad.append(["authentic", L, "mis-decoded"])
    muts = [("flip", pos, bit) for pos in range(len(pkt)) for bit in (0, 3, 7)] + [("trunc", k, 0) for k in range(len(pkt))]
    for kind, a, b in muts:
        c = bytearray(pkt)
        if kind == "flip":
            c[a] ^= 1 << b
        else:
            c = c[:a]
        if v2.is_authentic(bytes(c)):
            continue
        n += 1
        try:
            got = _Packet.decode(bytes(c))
            bad.append([kind, a, b, "frame-returned", bytes(got) == frame])
        except ProtocolError:
            pass
        except Exception as e:
            bad.append([kind, a, b, type(e).__name__])
print(json.dumps({"n": n, "bad": bad[:20], "nbad": len(bad), "optimize": sys.flags.optimize}))
"""


def _optimized(ctx, case):
    """The decoder's guards must not depend on `assert`: the same corruptions in a child interpreter started with -O."""
    import json
    import os
    import subprocess
    import sys
    env = {**os.environ, "PYTHONPATH": H.VERIF, "MSMART_VERIF_REPO": H.REPO}
    r = subprocess.run([sys.executable, "-O", "-c", _OPT_SCRIPT, str(case["mseed"])], capture_output=True, text=True, timeout=300, env=env, cwd=H.VERIF)
    try:
        res = json.loads(r.stdout.strip().splitlines()[-1])
    except Exception:  # noqa: BLE001
        ctx.inconclusive_because(f"-O child interpreter did not report (rc={r.returncode}): {(r.stderr or r.stdout)[-200:]}")
        return
    if res.get("optimize", 0) < 1:
        ctx.inconclusive_because("-O child interpreter did not run optimised")
        return
    ctx.count(("optimized", case["mseed"]), kind="optimized-interpreter-run")
    ctx.bump("corruptions-judged-under-python-O", res["n"])
    for b in res["bad"][:3]:
        ctx.violation("guard-depends-on-assert" if b[-1] in (True, False) or b[3:4] == ["frame-returned"] else "other-exception",
                      f"under python -O a corrupted packet ({b[0]} {b[1]} {b[2]}) gave {b[3:]} instead of a protocol error ({res['nbad']} of {res['n']})", case)


def _tails(ctx, case, frame, pkt):
    """authentic packet + trailing bytes in one chunk: the result is either a protocol error or exactly the signed frame."""
    import random
    from ..ref import prim
    r = random.Random(case["mseed"])
    other = v2.build(r.randbytes(r.randint(0, 40)), case["id"])
    tails = {"one-byte": r.randbytes(1), "random-16": r.randbytes(16), "random-n": r.randbytes(r.randint(2, 90)),
             "second-packet": other, "second-packet-without-header": other[40:], "second-packet-body-only": other[40:-16],
             "own-ciphertext-again": pkt[40:-16], "own-body-and-signature-again": pkt[40:],
             "valid-padded-blocks": v2.build(r.randbytes(r.randint(1, 60)), 1)[40:-16], "zeros-32": bytes(32)}
    for name, tail in tails.items():
        if not tail:
            continue
        chunk = pkt + tail
        key = (len(frame), ("tail", name, len(tail)))
        try:
            got = _Packet.decode(chunk)
        except ProtocolError:
            ctx.count(key, kind="tail-protocol-error")
            continue
        except Exception as e:  # noqa: BLE001
            ctx.count(key, kind="other-exception")
            ctx.violation("other-exception", f"{type(e).__name__} for an authentic packet followed by {name}", case, {"chunk": chunk})
            continue
        if bytes(got) == frame:
            ctx.count(key, kind="tail-ignored-signed-frame-returned")
        else:
            ctx.count(key, kind="frame-returned")
            ctx.violation("unsigned-bytes-decoded", f"authentic packet followed by {name} ({len(tail)} bytes) decoded to {len(got)} bytes that "
                          f"are not the signed frame", case, {"chunk": chunk, "got": bytes(got)})


def _wire(ctx, case, frame, pkt):
    import random
    r = random.Random(case["mseed"])
    c = bytearray(pkt)
    k = case["wkind"]
    if k == "flip":
        c[r.randrange(len(c))] ^= 1 << r.randrange(8)
    elif k == "trunc":
        c = c[:r.randint(1, len(c) - 1)]
    elif k == "subst":
        c[r.randrange(len(c))] ^= r.randint(1, 255)
    elif k == "len0":
        c[4:6] = b"\x00\x00"
        if r.random() < 0.5 and len(c) > 60:
            c[44] ^= 0x21
    else:
        for _ in range(r.randint(2, 8)):
            c[r.randrange(len(c))] ^= r.randint(1, 255)
    corrupted = bytes(c)
    if v2.is_authentic(corrupted):
        ctx.skip("corruption-still-authentic")
        return
    net = H.new_net()
    version = case.get("version", 2)
    token, aes_key = bytes(range(64)), bytes(range(32))
    dev = SimDevice(net, version=version, token=token, key=aes_key, device_id=case["id"])
    rd = case.get("reply_delay", 0.0)
    if version == 3:
        # the corrupted V2 packet travels inside a correctly tagged V3 encrypted response
        from ..ref import v3
        dev.on_exchange = lambda conn, req, packets, meta: [(rd, v3.build_encrypted(conn.skey, corrupted, 7, v3.T_ENC_RESP))]
    else:
        dev.on_exchange = lambda conn, req, packets, meta: [(rd, corrupted)]

    first = {"n": 0, "silent": 0}
    late = case.get("position") == "late-extra"
    corrupt_hook = dev.on_exchange

    def on_exchange(conn, req, packets, meta):
        first["n"] += 1
        if first["n"] == 1 and case["mseed"] % 2 == 0:
            # the authentic packet is delivered (and accepted) first, its altered copy on the next exchange
            good = pkt if version == 2 else __import__("mv.ref.v3", fromlist=["x"]).build_encrypted(conn.skey, pkt, 3, 3)
            return [(0, good)]
        if late:
            # the altered packet is not the awaited reply: it arrives 0.3 s after a genuine reply (a spontaneous report hit by noise)
            # and is found in the receive queue by the following exchange
            first["late"] = first.get("late", 0) + 1
            good = pkt if version == 2 else __import__("mv.ref.v3", fromlist=["x"]).build_encrypted(conn.skey, pkt, 5, 3)
            if first["late"] == 1:
                return [(0, good)] + [(0.3, p) for _, p in corrupt_hook(conn, req, packets, meta)]
            return [(0, good)]
        if first["silent"] < case.get("drop_first", 0):
            first["silent"] += 1      # this transmission is lost; the corrupted packet answers a retransmission
            return []
        return corrupt_hook(conn, req, packets, meta)

    dev.on_exchange = on_exchange

    async def go(loop):
        lan = LAN(dev.host, dev.port, case["id"])
        if case.get("lifetime") and not (late and case["lifetime"] < 5):
            # (in the late-extra position a lifetime shorter than the pause would legitimately retire the connection - and the
            # corrupted packet with it - before the next exchange looks at it)
            lan.max_connection_lifetime = case["lifetime"]
        if version == 3:
            await lan.authenticate(token, aes_key)
        if case["mseed"] % 2 == 0:
            ok = await lan.send(b"\xaa\x0b\xac" + bytes(8))
            if [bytes(x) for x in ok] != [frame]:
                raise AssertionError("authentic packet not accepted in the wire case")
        if late:
            import asyncio
            ok = await lan.send(b"\xaa\x0b\xac" + bytes(8))
            if [bytes(x) for x in ok] != [frame]:
                raise AssertionError("authentic packet not accepted in the wire case")
            await asyncio.sleep(1.0)
        return await lan.send(b"\xaa\x0b\xac" + bytes(8))

    key = (len(frame), ("wire", k, case["mseed"], version, case.get("drop_first", 0), case.get("position"), case.get("lifetime"), rd))
    try:
        got, loop = H.run_virtual(go, net)
    except ProtocolError:
        ctx.count(key, kind="wire-protocol-error")
        return
    except Exception as e:  # noqa: BLE001
        ctx.count(key, kind="wire-other-exception")
        ctx.violation("wire-other-exception", f"LAN.send raised {type(e).__name__} for a corrupted packet ({k})", case,
                      {"corrupted": corrupted, "exc": e})
        return
    ctx.count(key, kind="wire-frames-returned")
    ctx.violation("wire-altered-packet-accepted", f"LAN.send returned frames for a corrupted packet ({k})", case,
                  {"corrupted": corrupted, "got": [bytes(g) for g in got]})
