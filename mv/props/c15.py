"""C15 - capability records are interpreted independently and survive paging (metamorphic)."""
from __future__ import annotations

from .. import harness as H
from ..ref import acframe, acprops
from ..simdev import ACModel, SimDevice
from . import c13

from msmart.device import AirConditioner as AC
from msmart.device.AC.command import CapabilitiesResponse, Response

ID = "C15"
LEVEL = "exploration"
RULE = ("a case = a well-formed ordered list of <= 12 capability records (every known id with every value 0..255, unknown ids, zero-size "
        "records, sizes 1..10 incl. undersized temperature records). Oracle 1 (parser, metamorphic): raw_capabilities of the real parser "
        "on the whole list == merge in order of the real parser's results on each record alone. Oracle 2 (paging): after get_capabilities() "
        "against a simulated device the supported_*/supports_*/min/max snapshot is identical whether the device sends all records in one "
        "response or splits them at any point k across a first response (more flag set) and an 'additional' response - for every k; and (oracle 3) identical again when ONE object first receives the same first page with an empty additional page and is then queried again with the full list split at k. "
        "Also every ordered pair of known ids and all orders of related mode/preset records (oracle 1), long lists of maximum-size records over V2 and V3, and paging with a capabilities-id notification (frame type 5) pushed ahead of each page. distinct = (record list, split point); non-trivial = lists with >= 2 records")
ASSUMPTIONS = ["only well-formed lists (every record's size inside the body, count == number of records) are judged; ill-formed ones belong to C14",
               "single-record interpretations come from the real parser, so the oracle needs no capability value tables"]
# reach anchors: only entry points this check calls itself or callbacks the event loop needs (robust against internal refactors);
# that the mechanism was really exercised is demanded through MIN_NONTRIVIAL / MIN_HIST outcome counts
ANCHORS = ["command.py:Response.construct", "device.py:AirConditioner.get_capabilities"]
MIN_NONTRIVIAL = {"quick": 10000, "thorough": 150000}
MIN_HIST = {"quick": {"paging-compared": 3000}, "thorough": {"paging-compared": 40000}}
WORKERS = {"quick": 1, "thorough": 16}
EXHAUSTIVE = {t: ["every known capability id x every value 0..255 between two sentinel records", "all split points of every list sent through paging",
                  "temperature record sizes 1..10 at every list position"] for t in ("quick", "thorough")}

KNOWN = [0x0009, 0x000A, 0x0018, 0x0030, 0x0032, 0x0033, 0x0039, 0x0040, 0x0042, 0x0043, 0x0048, 0x004B, 0x0051, 0x0058, 0x0059, 0x0067,
         0x00E3, 0x0091, 0x0093, 0x0094, 0x0098, 0x0210, 0x0212, 0x0213, 0x0214, 0x0215, 0x0216, 0x0217, 0x0219, 0x021A, 0x0221, 0x021E,
         0x021F, 0x0222, 0x0224, 0x022C, 0x0230, 0x0231, 0x0232, 0x0233, 0x0234]
TEMPS = 0x0225
UNKNOWN = [0x0001, 0x0099, 0x0300, 0x7777, 0xFFFF, 0x0226]


def _rand_record(rng):
    r = rng.random()
    if r < 0.45:
        return (rng.choice(KNOWN), bytes([rng.randrange(256)]))
    if r < 0.55:
        return (rng.choice(KNOWN), rng.randbytes(rng.randint(2, 10)))
    if r < 0.65:
        return (rng.choice(KNOWN + UNKNOWN), b"")
    if r < 0.8:
        return (rng.choice(UNKNOWN), rng.randbytes(rng.randint(1, 10)))
    return (TEMPS, rng.randbytes(rng.randint(1, 10)))


def _lists(ctx, rng):
    quick = ctx.tier == "quick"
    a, b = (0x0212, b"\x01"), (0x0214, b"\x01")
    for cid in KNOWN:
        for v in range(256):
            yield [a, (cid, bytes([v])), b], False
    for size in range(0, 11):
        for pos in range(3):
            for _ in range(3):
                rec = (TEMPS, rng.randbytes(size))
                lst = [(0x0212, b"\x01"), (0x0215, b"\x01"), (0x0210, b"\x07")]
                lst.insert(pos, rec)
                lst.append((0x021F, b"\x02"))
                yield lst, True
    for cid in KNOWN + UNKNOWN:
        for size in (0, 2, 3, 10):
            yield [a, (cid, rng.randbytes(size)), b, (0x0043, b"\x01")], True
    for _ in range(1500 if quick else 200000):
        n = rng.randint(1, 12)
        yield [_rand_record(rng) for _ in range(n)], (rng.random() < (0.3 if quick else 0.5))


def _pairs(ctx, rng):
    """Every ordered pair of known ids (a few values each): does interpreting one record look at what another one left behind?"""
    vals = [0, 1, 2, 3, 5, 9]
    for a in KNOWN + [TEMPS]:
        for b in KNOWN + [TEMPS]:
            va = bytes([rng.choice(vals)]) if a != TEMPS else bytes(rng.choice([[34, 60, 34, 60, 34, 60, 1], [32, 64, 32, 64, 32, 64, 0]]))
            vb = bytes([rng.choice(vals)]) if b != TEMPS else bytes(rng.choice([[34, 60, 34, 60, 34, 60, 1], [32, 64, 32, 64, 32, 64, 0]]))
            yield [(a, va), (b, vb)]
    # modes x presets x fan: all value combinations of three records that describe related features, in all six orders
    import itertools
    for mv_ in (0, 1, 2, 3, 4, 5, 8, 9, 14):
        for tv in (0, 1, 2, 3):
            for ev in (0, 1, 2):
                recs = [(0x0214, bytes([mv_])), (0x021A, bytes([tv])), (0x0212, bytes([ev]))]
                for perm in itertools.permutations(recs):
                    yield list(perm)


def generate(ctx, rng):
    for i, (lst, paging) in enumerate(_lists(ctx, rng)):
        yield ("l", i), {"records": [[cid, val] for cid, val in lst], "paging": paging, "noise": paging and i % 3 == 0, "abandon": paging and i % 2 == 1}
    for i, lst in enumerate(_pairs(ctx, rng)):
        yield ("p", i), {"records": [[cid, val] for cid, val in lst], "paging": False}
    # long lists of maximum-size records (frames of 150-250 bytes), also over the V3 transport
    for j in range(12 if ctx.tier == "quick" else 300):
        n = rng.randint(9, 12)
        lst = [(rng.choice(KNOWN + UNKNOWN), rng.randbytes(10)) for _ in range(n)]
        yield ("big", j), {"records": [[cid, val] for cid, val in lst], "paging": True, "version": 2 + j % 2, "splits": sorted({0, 1, n // 2, n - 1, n})}


def _parse(records, more=False):
    frame = acframe.build(acprops.build_caps(records, more), acframe.FT_QUERY)
    resp = Response.construct(frame)
    if not isinstance(resp, CapabilitiesResponse):
        raise TypeError(f"constructed {type(resp).__name__}")
    return resp


def run_case(ctx, case):
    records = [(r[0], bytes(r[1])) for r in case["records"]]
    key = tuple(records)
    n = len(records)
    # ---- oracle 1: parser independence
    try:
        whole = dict(_parse(records).raw_capabilities)
        singles = {}
        alone = []
        for rec in records:
            one = dict(_parse([rec]).raw_capabilities)
            alone.append(one)
            singles.update(one)
    except Exception as e:  # noqa: BLE001
        ctx.count(key, kind="parser-raised")
        ctx.violation("parser-raises", f"capability parser raised {type(e).__name__}: {e} on a well-formed list", case)
        return
    ctx.count(key, nontrivial=n >= 2, kind="parser-compared",
              sample={"records": [(hex(c), v.hex()) for c, v in records]} if n >= 4 else None)
    if whole != singles:
        missing = sorted(set(singles) - set(whole))
        extra = sorted(set(whole) - set(singles))
        differ = sorted(k for k in set(whole) & set(singles) if whole[k] != singles[k])
        ctx.violation(_mech(records), "capabilities of the whole list differ from the in-order merge of each record alone", case,
                      {"missing": missing, "extra": extra, "differ": differ})
    else:
        # records with different ids do not share result keys (a record can only be overridden by a later record of the SAME id):
        # what a record yields alone must be found unchanged in the result of the whole list
        ids = [c for c, _ in records]
        if len(set(ids)) == len(ids):
            ctx.bump("distinct-id-lists-checked-for-key-interference")
            for (cid, _), one in zip(records, alone):
                lost = sorted(k for k, v in one.items() if k not in whole or whole[k] != v)
                if lost:
                    ctx.violation(_mech(records) if _has_short_temps(records) else "records-interfere", f"what record 0x{cid:04X} yields alone ({lost}) is changed by another record "
                                  f"with a different id in the same list", case, {"alone": {k: repr(one[k]) for k in lost}, "whole": {k: repr(whole.get(k)) for k in lost}})
                    break
    # more flag must be read independently of the records
    try:
        for more in (False, True):
            if _parse(records, more).additional_capabilities != more:
                ctx.violation("more-flag" if not _has_short_temps(records) else _mech(records),
                              f"'additional capabilities' flag read as {not more} for a list sent with more={more}", case)
    except Exception as e:  # noqa: BLE001
        ctx.violation("parser-raises", f"capability parser raised {type(e).__name__}: {e}", case)
    if not case["paging"]:
        return
    # ---- oracle 2: paging invariance through get_capabilities()
    snaps = []
    version = case.get("version", 2)
    tok, dkey = bytes(range(64)), bytes(range(32))
    splits = case.get("splits") or list(range(n + 1))
    for k in [None] + list(splits):
        net = H.new_net()
        model = ACModel()
        model.caps_pages = [records] if k is None else [records[:k], records[k:]]
        dev = SimDevice(net, version=version, token=tok, key=dkey, device_id=0x55, ac=model)
        hang = {"at": None, "seen": 0}
        abandon = bool(case.get("abandon")) and k is not None and (k + n) % 3 == 0
        mark = {"n0": 0}

        def on_exchange(conn, req, packets, meta, dev=dev, hang=hang):
            if hang["at"] is not None:
                hang["seen"] += 1
                if hang["seen"] >= hang["at"]:
                    return []                     # the unit does not answer this request (the caller will give up)
            if case.get("noise") and k is not None:
                # the device also pushes a capabilities-id notification (frame type 5) ahead of each page in the same exchange
                note = acframe.build(bytes([0xB5, 0x01, 0x14, 0x02, 0x01, 0x01]), 5)
                return [(0, dev.wrap(conn, note))] + [(0, p) for p in packets]
            return None
        dev.on_exchange = on_exchange

        async def go(loop, dev=dev, hang=hang, abandon=abandon, mark=mark, model=model, k=k):
            import asyncio
            ac = AC(ip=dev.host, port=dev.port, device_id=dev.device_id)
            if version == 3:
                await ac.authenticate(tok, dkey)
            if abandon:
                # an earlier query of the same object was abandoned by its caller (deadline) while its first request was
                # unanswered; nothing of it may change what the next query reports
                hang["at"] = 1         # (the first request: no page has been seen, so nothing can legitimately have been learned)
                if k % 2 == 0:
                    # ... or the connection attempt itself never completes (a cancellation that arrives while connecting is not
                    # turned into a timeout by the transport)
                    for c in dev.conns:
                        if not c.closed:
                            c.emit([(0, "fin")])
                    await asyncio.sleep(0.01)
                    dev.connect_script = ["hang"]
                try:
                    await asyncio.wait_for(ac.get_capabilities(), 0.5)
                except (asyncio.TimeoutError, TimeoutError, asyncio.CancelledError):
                    pass
                hang["at"] = None
                dev.connect_script = []
                await asyncio.sleep(7.0)
                mark["n0"] = len(model.commands)
            await ac.get_capabilities()
            return c13._snapshot(ac)[1]

        try:
            snap, loop = H.run_virtual(go, net)
        except Exception as e:  # noqa: BLE001
            ctx.count((key, k), kind="paging-raised")
            ctx.violation("paging-raises", f"get_capabilities raised {type(e).__name__}: {e} (split {k})", case)
            return
        pages = [c[1] for c in model.commands[mark["n0"]:] if c[0] == "caps"]
        if abandon:
            ctx.bump("paging-after-an-abandoned-query")
        snaps.append((k, snap, pages))
    base = snaps[0][1]
    for k, snap, pages in snaps[1:]:
        ctx.count((key, k, version, bool(case.get("noise"))), nontrivial=n >= 2, kind="paging-compared" + ("-v3" if version == 3 else "") + ("-with-notification" if case.get("noise") else ""))
        ctx.bump("paging-compared") if (version == 3 or case.get("noise")) else None
        if pages != [0, 1]:
            ctx.violation("second-page-not-requested" if not _has_short_temps(records[:k]) else _mech(records),
                          f"device advertised more capabilities but requests seen were {pages} (split {k})", case)
            continue
        if snap != base:
            diff = {f: (base[f], snap[f]) for f in base if base[f] != snap[f]}
            ctx.violation(_mech(records) if _has_short_temps(records) else "paging-differs",
                          f"capabilities differ between one response and a split at {k}: {diff}", case, {"split": k, "diff": diff})


    # ---- oracle 3: the result of a query does not depend on what the same object learned from an earlier, shorter answer of
    # the same device (the additional page was empty the first time).  Only for lists without a repeated capability id and
    # without undersized temperature records: several capability attributes are deliberately sticky (energy polling is only
    # ever switched on, rate-select / range attributes are only assigned when reported), so an earlier answer that
    # *contradicts* the later one - which a repeated id on both pages amounts to - may legitimately show through
    if len({cid for cid, _ in records}) != len(records) or _has_short_temps(records):
        ctx.skip("re-query oracle not applied to lists with repeated ids / undersized temperature records")
        return
    net = H.new_net()
    model = ACModel()
    dev = SimDevice(net, version=2, device_id=0x56, ac=model)
    out = []

    async def again(loop):
        ac = AC(ip=dev.host, port=dev.port, device_id=dev.device_id)
        for k in range(n):
            # same first page, but the additional page is empty this time ...
            model.caps_pages = [records[:k], []]
            await ac.get_capabilities()
            # ... and now the device delivers the full list, split at the same point
            model.caps_pages = [records[:k], records[k:]]
            await ac.get_capabilities()
            out.append((k, c13._snapshot(ac)[1]))

    try:
        H.run_virtual(again, net)
    except Exception as e:  # noqa: BLE001
        ctx.violation("paging-raises", f"repeated get_capabilities raised {type(e).__name__}: {e}", case)
        return
    for k, snap in out:
        ctx.count((key, "requery", k), nontrivial=n >= 2, kind="requery-compared")
        if snap != base:
            diff = {f: (base[f], snap[f]) for f in base if base[f] != snap[f]}
            ctx.violation(_mech(records) if _has_short_temps(records) else "requery-differs",
                          f"capabilities after querying the same object again (same first page, split {k}) differ from a fresh query: {diff}", case,
                          {"split": k, "diff": diff})


def _has_short_temps(records) -> bool:
    return any(cid == TEMPS and 1 <= len(v) < 6 for cid, v in records)


def _mech(records) -> str:
    """Mechanism classifier: keyed on the record class that is involved, never on values."""
    if _has_short_temps(records):
        return "undersized-temperature-record"
    return "records-not-independent"
