"""C12 - every emitted command is a well-formed, device-acceptable frame; message ids advance by one mod 256."""
from __future__ import annotations

import itertools

from .. import gen
from .. import harness as H
from ..ref import acframe, acprops, acstate
from ..ref.prim import RefError
from ..simdev import ACModel, SimDevice

from msmart.device import AirConditioner as AC
from msmart.device.AC import command as C

ID = "C12"
LEVEL = "exploration"
RULE = ("direct: tobytes() of every Command subclass over its parameter domain (all 512 subsets of the 9 supported property ids for the "
        "query, every supported property with every value of its domain and multi-property maps for the write, both capability pages, "
        "set-state over the C10 state generator, display toggle with both beep values) is parsed by a strict spec-conforming parser "
        "(0xAA, length byte == len-1, 0xAC, documented frame type, body ending in message id + CRC-8 (bitwise, table-free) and "
        "two's-complement checksum) and then by the reference device command parser; device-side: every public AirConditioner "
        "operation against simulated devices with different capability profiles, with and without DEBUG logging enabled, also against devices using the additive body check whose replies are sometimes junk, corrupted, error packets, duplicated or missing, and with two client objects active at once; commands constructed first and serialised later in another order - the device must accept every frame; ids of "
        "consecutive distinct commands must advance by 1 mod 256 (checked over one long mixed sequence spanning several wrap-arounds). "
        "distinct = distinct frame bytes with the message id and check bytes blanked; all non-trivial")
ASSUMPTIONS = ["documented frame types: queries and the display toggle 0x03, state/property writes 0x02",
               "retransmissions (identical bytes) are not distinct commands",
               "Command._message_id is process-wide: the id oracle observes every tobytes() call made in this process in order"]
# reach: the two serialisers every command goes through; that every command *kind* was observed is demanded through MIN_HIST
# (counts of frames the reference parser classified), which does not depend on how the classes are organised internally
ANCHORS = ["frame.py:Frame.tobytes", "command.py:Command.tobytes", "crc8.py:calculate"]
MIN_NONTRIVIAL = {"quick": 2500, "thorough": 60000}
_KINDS = {"frame-get_state": 1, "frame-get_energy": 1, "frame-get_humidity": 1, "frame-caps": 2, "frame-prop_query": 500, "frame-toggle_display": 2,
          "frame-control": 1000, "frame-prop_set": 50}
MIN_HIST = {"quick": {"id-step-checked": 3000, **_KINDS}, "thorough": {"id-step-checked": 100000, **_KINDS}}
WORKERS = {"quick": 1, "thorough": 8}
EXHAUSTIVE = {t: ["all 512 subsets of the supported property ids (query)", "every supported property id x every value of its domain (write)",
                  "both capability pages", "display toggle x beep"] for t in ("quick", "thorough")}

P = C.PropertyId
SUPPORTED = [P.SWING_UD_ANGLE, P.SWING_LR_ANGLE, P.BREEZELESS, P.BUZZER, P.SELF_CLEAN, P.BREEZE_AWAY, P.BREEZE_CONTROL, P.RATE_SELECT, P.IECO]
VALUE_DOMAINS = {
    P.SWING_UD_ANGLE: [int(v) for v in AC.SwingAngle.list()], P.SWING_LR_ANGLE: [int(v) for v in AC.SwingAngle.list()],
    P.BREEZELESS: [False, True], P.BUZZER: [False, True], P.SELF_CLEAN: [False, True], P.BREEZE_AWAY: [False, True],
    P.BREEZE_CONTROL: [int(v) for v in AC.BreezeMode.list()], P.RATE_SELECT: [int(v) for v in AC.RateSelect.list()],
    P.IECO: [False, True],
}
EXPECTED_TYPE = {"get_state": 3, "get_energy": 3, "get_humidity": 3, "caps": 3, "prop_query": 3, "toggle_display": 3,
                 "control": 2, "prop_set": 2}

_last_id = [None]
_long_seq = {"n": 0}


def setup(ctx):
    _last_id[0] = None


def _check_frame(ctx, case, frame: bytes, expect_kind: str, detail=None):
    """Strict parse + device parse + id sequencing."""
    frame = bytes(frame)
    blank = frame[:-3] + b"\x00\x00\x00"
    ctx.count(blank, kind=f"frame-{expect_kind}", sample={"kind": expect_kind, "frame": frame})
    try:
        cmd = acframe.parse_command(frame)
    except RefError as e:
        ctx.violation("malformed-frame", f"{expect_kind} frame rejected by the strict parser: {e}", case, {"frame": frame, **(detail or {})})
        _last_id[0] = None
        return None
    if cmd["frame_type"] != EXPECTED_TYPE[expect_kind]:
        ctx.violation("wrong-frame-type", f"{expect_kind} frame carries frame type {cmd['frame_type']}", case, {"frame": frame})
    model = ACModel()
    model.energy = (bytes(4), bytes(4), bytes(3))
    model.humidity = 50
    for pid in acprops.SUPPORTED:
        model.props[pid] = b"\x00\x00" if pid == acprops.P_IECO else b"\x01"
    model.handle(frame)
    if model.rejected:
        ctx.violation("device-rejects", f"reference device parser rejects the {expect_kind} command: {model.rejected[0][1]}", case,
                      {"frame": frame})
    elif not model.commands or model.commands[0][0] != expect_kind:
        ctx.violation("device-misreads", f"reference device reads the {expect_kind} command as {model.commands[0][0] if model.commands else None}",
                      case, {"frame": frame})
    mid = cmd["msg_id"]
    if _last_id[0] is not None:
        ctx.bump("id-step-checked")
        if mid != (_last_id[0] + 1) % 256:
            ctx.violation("message-id-step", f"message id {mid} follows {_last_id[0]} (expected {(_last_id[0] + 1) % 256})", case,
                          {"frame": frame})
    _last_id[0] = mid
    return model


def generate(ctx, rng):
    quick = ctx.tier == "quick"
    yield ("simple",), {"kind": "simple"}
    # property query subsets
    subsets = []
    for r in range(len(SUPPORTED) + 1):
        subsets += list(itertools.combinations(range(len(SUPPORTED)), r))
    for i in range(0, len(subsets), 64):
        yield ("getprops", i), {"kind": "getprops", "subsets": [list(s) for s in subsets[i:i + 64]], "container": ["set", "list", "tuple", "frozenset"][(i // 64) % 4]}
    yield ("setprops-single",), {"kind": "setprops-single"}
    for j in range(40 if quick else 22500):
        k = rng.randint(1, len(SUPPORTED))
        ids = rng.sample(range(len(SUPPORTED)), k)
        yield ("setprops-multi", j), {"kind": "setprops-multi", "items": [(i, rng.randrange(len(VALUE_DOMAINS[SUPPORTED[i]]))) for i in ids]}
    # set state over the C10 generator
    states = [st for _, st in gen.per_field_sweeps(rng)] + gen.pairwise(rng, gen.PAIRWISE_DOMAINS)
    states += [gen.random_state(rng) for _ in range(3000 if quick else 900000)]
    for i in range(0, len(states), 100):
        yield ("setstate", i), {"kind": "setstate", "states": states[i:i + 100]}
    # long mixed sequence (several wrap-arounds)
    n_long = 5000 if quick else 1200000
    for i in range(0, n_long, 500):
        yield ("long", i), {"kind": "long", "n": 500, "lseed": rng.getrandbits(32)}
    # device-side: public operations with capability profiles
    for j in range(80 if quick else 18000):
        yield ("ops", j), {"kind": "ops", "oseed": rng.getrandbits(32), "debug_logging": j % 2 == 1}
    # the same against devices that use the additive body check and whose replies are sometimes junk, corrupted, an error packet or missing
    for j in range(120 if quick else 37500):
        yield ("ops-faulty", j), {"kind": "ops", "oseed": rng.getrandbits(32), "debug_logging": j % 5 == 1, "faulty": True,
                                  "check": ["sum", "crc"][j % 2]}
    # two client objects working against two devices at the same time
    for j in range(60 if quick else 22500):
        yield ("ops-pair", j), {"kind": "ops-pair", "oseed": rng.getrandbits(32)}
    # commands constructed first and serialised later, in another order, with other commands constructed in between
    for j in range(60 if quick else 45000):
        yield ("deferred", j), {"kind": "deferred", "lseed": rng.getrandbits(32), "n": rng.randint(2, 9)}


def run_case(ctx, case):
    k = case["kind"]
    if getattr(ctx, "preamble", None) is not None:
        _last_id[0] = None          # other library activity ran in this process since the previous case and consumed message ids
    if k == "simple":
        for additional in (False, True):
            m = _check_frame(ctx, case, C.GetCapabilitiesCommand(additional).tobytes(), "caps")
            if m and m.commands and m.commands[0][1] != (1 if additional else 0):
                ctx.violation("caps-page", f"capability page requested reads as {m.commands[0][1]} for additional={additional}", case)
        _check_frame(ctx, case, C.GetStateCommand().tobytes(), "get_state")
        _check_frame(ctx, case, C.GetEnergyUsageCommand().tobytes(), "get_energy")
        _check_frame(ctx, case, C.GetHumidityCommand().tobytes(), "get_humidity")
        for beep in (False, True):
            cmd = C.ToggleDisplayCommand()
            cmd.beep_on = beep
            m = _check_frame(ctx, case, cmd.tobytes(), "toggle_display")
            if m and m.commands and m.commands[0][1] != beep:
                ctx.violation("toggle-beep", "beep flag of the display toggle not as requested", case)
    elif k == "getprops":
        cont = {"set": set, "list": list, "tuple": tuple, "frozenset": frozenset}[case["container"]]
        for sub in case["subsets"]:
            ids = cont(SUPPORTED[i] for i in sub)
            m = _check_frame(ctx, case, C.GetPropertiesCommand(ids).tobytes(), "prop_query", {"subset": [int(SUPPORTED[i]) for i in sub]})
            if m and m.prop_queries and sorted(m.prop_queries[0]) != sorted(int(SUPPORTED[i]) for i in sub):
                ctx.violation("prop-query-ids", "device reads different property ids than requested", case, {"read": m.prop_queries[0]})
    elif k == "setprops-single":
        for pid in SUPPORTED:
            for v in VALUE_DOMAINS[pid]:
                _setprops(ctx, case, {pid: v})
    elif k == "setprops-multi":
        _setprops(ctx, case, {SUPPORTED[i]: VALUE_DOMAINS[SUPPORTED[i]][vi] for i, vi in case["items"]})
    elif k == "setstate":
        for st in case["states"]:
            cmd = C.SetStateCommand()
            cmd.beep_on = st["beep"]
            cmd.power_on = st["power"]
            cmd.target_temperature = st["target_temperature"]
            cmd.operational_mode = st["mode"]
            cmd.fan_speed = st["fan"]
            cmd.swing_mode = st["swing"]
            cmd.eco, cmd.turbo, cmd.sleep, cmd.fahrenheit = st["eco"], st["turbo"], st["sleep"], st["fahrenheit"]
            cmd.freeze_protection, cmd.follow_me, cmd.purifier = st["freeze_protection"], st["follow_me"], st["purifier"]
            cmd.target_humidity = st["target_humidity"]
            cmd.aux_heat = st["aux"] == 1
            cmd.independent_aux_heat = st["aux"] == 2
            _check_frame(ctx, case, cmd.tobytes(), "control")
    elif k == "long":
        import random
        r = random.Random(case["lseed"])
        makers = [
            lambda: (C.GetStateCommand().tobytes(), "get_state"),
            lambda: (C.GetEnergyUsageCommand().tobytes(), "get_energy"),
            lambda: (C.GetHumidityCommand().tobytes(), "get_humidity"),
            lambda: (C.GetCapabilitiesCommand(r.random() < 0.5).tobytes(), "caps"),
            lambda: (C.ToggleDisplayCommand().tobytes(), "toggle_display"),
            lambda: (C.GetPropertiesCommand(r.sample(SUPPORTED, r.randint(0, 9))).tobytes(), "prop_query"),
            lambda: (C.SetPropertiesCommand({p: r.choice(VALUE_DOMAINS[p]) for p in r.sample(SUPPORTED, r.randint(1, 4))}).tobytes(), "prop_set"),
            lambda: (C.SetStateCommand().tobytes(), "control"),
        ]
        for _ in range(case["n"]):
            frame, kind = r.choice(makers)()
            _check_frame(ctx, case, frame, kind)
    elif k == "deferred":
        import random
        r = random.Random(case["lseed"])
        ctors = [
            lambda: (C.GetStateCommand(), "get_state"), lambda: (C.GetEnergyUsageCommand(), "get_energy"), lambda: (C.GetHumidityCommand(), "get_humidity"),
            lambda: (C.GetCapabilitiesCommand(r.random() < 0.5), "caps"), lambda: (C.ToggleDisplayCommand(), "toggle_display"),
            lambda: (C.GetPropertiesCommand(r.sample(SUPPORTED, r.randint(0, 9))), "prop_query"),
            lambda: (C.SetPropertiesCommand({p: r.choice(VALUE_DOMAINS[p]) for p in r.sample(SUPPORTED, r.randint(1, 4))}), "prop_set"),
            lambda: (C.SetStateCommand(), "control"),
        ]
        built = [r.choice(ctors)() for _ in range(case["n"])]
        r.shuffle(built)
        for cmd, kind in built:
            r.choice(ctors)()          # another command is constructed (and dropped) just before this one is serialised
            _check_frame(ctx, case, cmd.tobytes(), kind)
    elif k == "ops-pair":
        _ops_pair(ctx, case)
    else:
        _ops(ctx, case)


class _ROMapping(__import__("collections").abc.Mapping):
    """A read-only Mapping that is not a dict (the constructor is annotated to take any Mapping)."""

    def __init__(self, d):
        self._d = dict(d)

    def __getitem__(self, k):
        return self._d[k]

    def __iter__(self):
        return iter(self._d)

    def __len__(self):
        return len(self._d)


_MAPPINGS = [dict, __import__("collections").OrderedDict, lambda d: __import__("types").MappingProxyType(dict(d)),
             lambda d: __import__("collections").ChainMap(dict(d)), _ROMapping]
_map_i = [0]


def _setprops(ctx, case, props):
    _map_i[0] += 1
    try:
        frame = C.SetPropertiesCommand(_MAPPINGS[_map_i[0] % len(_MAPPINGS)](props)).tobytes()
    except Exception as e:  # noqa: BLE001
        ctx.count(("setprops-raise", repr(props)), kind="setprops-raised")
        ctx.violation("setprops-raises", f"SetPropertiesCommand.tobytes raised {type(e).__name__}: {e}", case, {"props": {int(k): v for k, v in props.items()}})
        _last_id[0] = None
        return
    m = _check_frame(ctx, case, frame, "prop_set", {"props": {int(k): int(v) for k, v in props.items()}})
    if m and m.prop_sets:
        ids = [pid for pid, _ in m.prop_sets[0]]
        if sorted(ids) != sorted(int(p) for p in props):
            ctx.violation("prop-set-ids", "device reads different property ids than written", case, {"read": ids})


def _ops_pair(ctx, case):
    """Two AirConditioner objects with their own devices working at the same time (commands of both are constructed and
    serialised interleaved); every frame either device receives must be acceptable and of the documented type."""
    import asyncio
    import random
    r = random.Random(case["oseed"])
    net = H.new_net()
    devs = []
    for k in range(2):
        model = ACModel()
        model.caps_pages = [r.choice(PROFILES)]
        model.energy = (bytes([0, 0, 0x12, 0x34]), bytes(4), bytes([0, 1, 0]))
        model.humidity = 55
        for pid in acprops.SUPPORTED:
            model.props[pid] = b"\x00\x00" if pid == acprops.P_IECO else b"\x01"
        dev = SimDevice(net, host=f"10.12.0.{k + 1}", version=r.choice([2, 3]), token=bytes(64), key=bytes(range(32)), device_id=r.getrandbits(40), ac=model)
        dev.on_exchange = lambda conn, req, packets, meta: [(r.choice([0.0, 0.01, 0.05, 0.2]), p) for p in packets]
        devs.append(dev)
    errs = []

    async def client(dev, shared=None):
        ac = shared or AC(ip=dev.host, port=dev.port, device_id=dev.device_id)
        if shared is None:
            if dev.version == 3:
                await ac.authenticate(dev.token, dev.key)
            ac.enable_energy_usage_requests = True
            await ac.get_capabilities()
            if dev is devs[0] and case["oseed"] % 2:
                # a second task of the application uses the same object at the same time (e.g. a poller next to a user action)
                extra.append(asyncio.ensure_future(client(dev, shared=ac)))
        for _ in range(r.randint(3, 8)):
            op = r.choice(["refresh", "apply", "toggle", "caps", "props"])
            try:
                if op == "refresh":
                    await ac.refresh()
                elif op == "apply":
                    gen.apply_to_ac(ac, gen.random_state(r))
                    await ac.apply()
                elif op == "toggle":
                    await ac.toggle_display()
                elif op == "caps":
                    await ac.get_capabilities()
                else:
                    if ac.supports_vertical_swing_angle:
                        ac.vertical_swing_angle = r.choice(AC.SwingAngle.list())
                    if ac.supports_ieco:
                        ac.ieco = r.random() < 0.5
                    await ac.apply()
            except Exception as e:  # noqa: BLE001
                errs.append((op, e))
            await asyncio.sleep(r.choice([0.0, 0.0, 0.02, 0.1]))

    extra = []

    async def go(loop):
        await asyncio.gather(*[client(d) for d in devs])
        if extra:
            await asyncio.gather(*extra)

    H.run_virtual(go, net)
    for op, e in errs:
        ctx.violation("operation-raises", f"{op} raised {type(e).__name__}: {e}", case)
    # process-wide emission order: on connections that are already established a command is written to the wire in the same
    # loop step in which it was serialised, so the ids seen by the two devices, merged by arrival time, advance by one
    merged = []
    for di, dev in enumerate(devs):
        first_t = {}
        for t, cid, frame in dev.frames_seen:
            first_t.setdefault(cid, t)
            merged.append((t, len(merged), di, cid, frame, t > first_t[cid]))
    merged.sort(key=lambda x: (x[0], x[1]))
    # frames that reached the two devices at the same virtual instant: their relative order is not observable from the two
    # device logs, so take them in id order (relative to the last id before the tie)
    ordered, last_id, i = [], 0, 0
    while i < len(merged):
        j = i
        while j < len(merged) and merged[j][0] == merged[i][0]:
            j += 1
        grp = merged[i:j]

        def _mid(x, last_id=last_id):
            try:
                return (acframe.parse_command(x[4])["msg_id"] - last_id) % 256
            except RefError:
                return 0
        grp.sort(key=_mid)
        ordered += grp
        try:
            last_id = acframe.parse_command(grp[-1][4])["msg_id"]
        except RefError:
            pass
        i = j
    prev = None
    seen_before = set()
    # (when two tasks share ONE object the order in which their commands reach the wire is the library's business - a lock below the
    # serialisation point may legitimately hold one of them back; "consecutive" is then only judged where commands are serialised,
    # by the process-wide tobytes() monitor, not on the wire)
    shared_object = bool(extra)
    if shared_object:
        ctx.bump("two-tasks-on-one-object: wire order not judged")
    for t, _, di, cid, frame, established in ([] if shared_object else ordered):
        try:
            cmd = acframe.parse_command(frame)
        except RefError:
            prev = None
            continue
        if (di, cid, frame) in seen_before:
            continue          # a retransmission of an earlier command (a run emits fewer than 256 commands, so equal bytes = same command)
        seen_before.add((di, cid, frame))
        if prev is not None and established and prev[3]:
            ctx.bump("id-step-checked")
            if cmd["msg_id"] != (prev[0] + 1) % 256:
                ctx.violation("message-id-step", f"with two clients active, message id {cmd['msg_id']} reached the wire right after {prev[0]} "
                              f"(device {di}, t={t:.3f})", case)
                break
        prev = (cmd["msg_id"], frame, (di, cid), established, t)
    for dev in devs:
        for frame, why in dev.ac.rejected:
            ctx.violation("device-rejects", f"with two clients active, a device rejected a frame: {why}", case, {"frame": frame})
        for t, cid, frame in dev.frames_seen:
            ctx.count(frame[:-3] + b"\x00\x00\x00", kind="device-frame-two-clients")
            try:
                cmd = acframe.parse_command(frame)
            except RefError:
                continue
            kind = dev.ac.commands and None
            body0 = cmd["body"][0]
            want = 2 if body0 in (0x40, 0xB0) else 3
            if cmd["frame_type"] != want:
                ctx.violation("wrong-frame-type", f"with two clients active, a command with body id 0x{body0:02x} carried frame type {cmd['frame_type']}", case,
                              {"frame": frame})
    _last_id[0] = None


PROFILES = [
    [],  # nothing
    [(0x0043, b"\x01"), (0x0048, b"\x02"), (0x00E3, b"\x01"), (0x0009, b"\x01"), (0x000A, b"\x01"), (0x0039, b"\x01"), (0x0216, b"\x02"), (0x021F, b"\x02")],
    [(0x0042, b"\x01"), (0x0018, b"\x01"), (0x0048, b"\x01"), (0x0216, b"\x03")],
    [(0x0042, b"\x01"), (0x0009, b"\x01"), (0x021F, b"\x01"), (0x0039, b"\x01")],
]


def _ops(ctx, case):
    import random
    r = random.Random(case["oseed"])
    prof = r.choice(PROFILES)
    net = H.new_net()
    model = ACModel()
    cut = r.randint(0, len(prof))
    model.caps_pages = [prof[:cut], prof[cut:]] if r.random() < 0.5 and prof else [prof]
    model.energy = (bytes([0, 0, 0x12, 0x34]), bytes(4), bytes([0, 1, 0]))
    model.humidity = 55
    for pid in acprops.SUPPORTED:
        model.props[pid] = b"\x00\x00" if pid == acprops.P_IECO else b"\x01"
    dev = SimDevice(net, version=r.choice([2, 3]), token=bytes(64), key=bytes(range(32)), device_id=r.getrandbits(40), ac=model)
    ops = [r.choice(["refresh", "apply", "caps", "toggle", "selfclean", "setprop+apply"]) for _ in range(r.randint(4, 14))]
    errs = []
    marks = []          # number of frames the device had seen when each operation started
    if case.get("faulty"):
        model.report_check = case.get("check", "crc")
        from ..ref import v3 as _v3

        def on_exchange(conn, req, packets, meta):
            x = r.random()
            if x > 0.3 or not packets:
                return None
            if x < 0.08:
                return [(0, bytes(r.randrange(256) for _ in range(64)))]                  # junk
            if x < 0.16:
                p = bytearray(packets[0])
                p[r.randrange(len(p))] ^= 1 << r.randrange(8)
                return [(0, bytes(p))]                                                    # a corrupted reply
            if x < 0.22:
                return [(0, _v3.build_error(0) if dev.version == 3 else packets[0][:20])]   # error packet / truncated packet
            if x < 0.26:
                return []                                                                 # silence: the request is retransmitted
            return [(0, packets[0]), (0, packets[0])]                                     # duplicated reply
        dev.on_exchange = on_exchange

    reads = {"n": 0}

    async def go(loop):
        ac = AC(ip=dev.host, port=dev.port, device_id=dev.device_id)
        if dev.version == 3:
            await ac.authenticate(dev.token, dev.key)
        ac.enable_energy_usage_requests = r.random() < 0.5
        for op in ["caps"] + ops:
            marks.append(len(dev.frames_seen))
            try:
                if op == "refresh":
                    await ac.refresh()
                elif op == "apply":
                    gen.apply_to_ac(ac, gen.random_state(r))
                    await ac.apply()
                elif op == "caps":
                    await ac.get_capabilities()
                elif op == "toggle":
                    await ac.toggle_display()
                elif op == "selfclean":
                    await ac.start_self_clean()
                else:
                    if ac.supports_vertical_swing_angle:
                        ac.vertical_swing_angle = r.choice(AC.SwingAngle.list())
                    if ac.supports_horizontal_swing_angle:
                        ac.horizontal_swing_angle = r.choice(AC.SwingAngle.list())
                    if ac.supports_breeze_away:
                        ac.breeze_away = r.random() < 0.5
                    if ac.supports_breezeless and r.random() < 0.5:
                        ac.breezeless = r.random() < 0.5
                    if ac.supports_breeze_mild and r.random() < 0.5:
                        ac.breeze_mild = r.random() < 0.5
                    if ac.supports_ieco:
                        ac.ieco = r.random() < 0.5
                    if len(ac.supported_rate_selects) > 1:
                        ac.rate_select = r.choice(ac.supported_rate_selects)
                    await ac.apply()
            except Exception as e:  # noqa: BLE001
                errs.append((op, e))
            # what applications do between operations: look at the object (status page, logging, diagnostics dump)
            if r.random() < 0.4:
                try:
                    str(ac), repr(ac), ac.to_dict()
                    [getattr(ac, n2) for n2 in dir(type(ac)) if isinstance(getattr(type(ac), n2, None), property)]
                    reads["n"] += 1
                except Exception as e:  # noqa: BLE001
                    errs.append(("read-attributes", e))

    if case.get("debug_logging"):
        with H.debug_logging():
            H.run_virtual(go, net)
    else:
        H.run_virtual(go, net)
    for op, e in errs:
        ctx.violation("operation-raises", f"{op} raised {type(e).__name__}: {e}", case)
    for frame, why in model.rejected:
        ctx.violation("device-rejects", f"simulated device rejected a frame emitted by a public operation: {why}", case, {"frame": frame, "ops": ops})
    prev = None
    for i, (t, cid, frame) in enumerate(dev.frames_seen):
        blank = frame[:-3] + b"\x00\x00\x00"
        ctx.count(blank, kind="device-frame-faulty-session" if case.get("faulty") else "device-frame")
        try:
            cmd = acframe.parse_command(frame)
        except RefError:
            prev = None
            continue
        # identical bytes within one operation are a retransmission; across operations they are two commands
        if prev is not None and (frame != prev[1] or i in marks):
            ctx.bump("id-step-checked")
            if cmd["msg_id"] != (prev[0] + 1) % 256:
                ctx.violation("message-id-step", f"on the wire message id {cmd['msg_id']} follows {prev[0]}", case, {"frame": frame})
        prev = (cmd["msg_id"], frame)
    # the direct-sequence oracle cannot relate ids across this interleaved run
    _last_id[0] = None
