"""C11 - state responses decode to exactly the reported state."""
from __future__ import annotations

import asyncio
import warnings

from .. import harness as H
from ..ref import acstate
from ..simdev import SimDevice

from msmart.device import AirConditioner as AC

ID = "C11"
LEVEL = "exploration"
RULE = ("a case = one raw 0xC0 body reported by the simulated device (either trailing-check style) to a refresh() of an "
        "AirConditioner (fresh, or with the history below); public attributes are compared with the independent vendor-layout decode (mv/ref/acstate.decode_0xC0). "
        "Temperature rules as stated: None <=> 0xFF; otherwise |t - (raw-50)/2| < 1; in Celsius a non-zero tenths digit is reflected "
        "exactly. Optional fields are present iff their offset < len(body). Exhaustive: 256 x 10 (byte, tenths) per sensor per unit, "
        "32 x 32 setpoint codes, all 256 values of bytes 1,2,7,8,9,10,13,14, fan 0..127, lengths 16..40 x both check styles; plus seeded "
        "random bodies; every value 0..255 of the trailing check byte (both styles) and of the frame checksum; histories on one object: a longer report before a shorter one, the same report twice with local never-applied edits in between, an unsolicited report pushed on the idle connection before the state changes and the refresh happens. distinct = distinct body bytes; all non-trivial. Mode/swing values outside the enumerations are not judged")
ASSUMPTIONS = ["'payload' = frame[10:-2]; a field is present iff its offset < len(payload)",
               "fan byte generated in 0..127; tenths nibbles generated in 0..9",
               "aux heat = byte 9 bit 3; independent aux = byte 8 bit 6; turbo = byte 8 bit 5 or byte 10 bit 1; "
               "display off <=> ((b14 >> 4) & 7) == 7 (vendor Lua 1806, 4357-4361); filter <=> byte 13 bit 5"]
# reach anchors: only entry points this check calls itself or callbacks the event loop needs (robust against internal refactors);
# that the mechanism was really exercised is demanded through MIN_NONTRIVIAL / MIN_HIST outcome counts
ANCHORS = ["device.py:AirConditioner.refresh", "command.py:Response.construct"]
MIN_NONTRIVIAL = {"quick": 9000, "thorough": 150000}
WORKERS = {"quick": 1, "thorough": 16}
EXHAUSTIVE = {t: ["256 x 10 (temperature byte, tenths) per sensor in both units", "32 x 32 setpoint codes",
                  "all 256 values of bytes 1,2,7,8,9,10,13,14; fan 0..127", "lengths 16..40 x {crc, additive}"] for t in ("quick", "thorough")}

BATCH = 128
VALID_MODES = {1, 2, 3, 4, 5, 6}
VALID_SWING = {0x0, 0x3, 0xC, 0xF}


def _rand_body(rng, length=23):
    b = bytearray(rng.randbytes(length))
    b[0] = 0xC0
    b[3] &= 0x7F
    b[15] = rng.randrange(10) | (rng.randrange(10) << 4)
    return b


def _bodies(ctx, rng):
    quick = ctx.tier == "quick"
    # temperatures
    for fahr in (0, 1):
        for raw in range(256):
            for tenths in range(10):
                b = _rand_body(rng, rng.choice([16, 19, 23, 24]))
                b[10] = (b[10] & ~0x04) | (0x04 if fahr else 0)
                b[11] = raw
                b[12] = (raw + 97) % 256
                b[15] = tenths | (((tenths + 3) % 10) << 4)
                yield b, "crc"
    # setpoint codes
    for alt in range(32):
        for prim in range(32):
            b = _rand_body(rng)
            b[2] = (b[2] & 0xE0) | prim
            b[13] = (b[13] & 0xE0) | alt
            yield b, "crc"
    # flag bytes
    for idx in (1, 2, 7, 8, 9, 10, 13, 14):
        for v in range(256):
            b = _rand_body(rng)
            b[idx] = v
            yield b, ("sum" if v & 1 else "crc")
    for fan in range(128):
        b = _rand_body(rng)
        b[3] = fan
        yield b, "crc"
    # lengths x check styles
    for length in range(16, 41):
        for chk in ("crc", "sum"):
            for _ in range(6):
                yield _rand_body(rng, length), chk
    for _ in range(1500 if quick else 4000000):
        yield _rand_body(rng, rng.randint(16, 40)), rng.choice(["crc", "sum"])


def _with_history(ctx, rng):
    """(body, check, earlier body): the same client object first refreshes against a longer report, then against this one -
    fields that are absent now must read unknown again, not the earlier value."""
    for length in range(16, 23):
        for _ in range(6 if ctx.tier == "quick" else 1000):
            prev = _rand_body(rng, rng.choice([23, 24, 30]))
            prev[19] = rng.randint(1, 100)
            prev[21] |= 0x80
            yield _rand_body(rng, length), rng.choice(["crc", "sum"]), prev
    for _ in range(60 if ctx.tier == "quick" else 15000):
        yield _rand_body(rng, rng.randint(16, 40)), rng.choice(["crc", "sum"]), _rand_body(rng, rng.randint(16, 40))


def _check_values(ctx, rng):
    """Bodies whose trailing check byte (either style) / whose frame checksum takes every value 0..255."""
    from ..ref import acframe
    for v in range(256):
        for chk in ("crc", "sum"):
            b = _rand_body(rng, rng.choice([19, 23, 24, 30]))
            for x in range(65536):
                b[17], b[18] = x & 0xFF, x >> 8
                c = acframe.crc8(bytes(b)) if chk == "crc" else acframe.checksum(bytes(b))
                if c == v:
                    break
            yield {"body": bytes(b), "check": chk, "label": f"body-check-byte-{chk}"}
        b = _rand_body(rng, 23)
        f0 = acframe.build(bytes(b), 3, check="crc")
        yield {"body": bytes(b), "check": "crc", "header_fill": bytes([(f0[-1] - v) & 0xFF, 0, 0, 0, 0]), "label": "frame-checksum-value"}


def _histories(ctx, rng):
    quick = ctx.tier == "quick"
    for _ in range(150 if quick else 60000):
        b = _rand_body(rng, rng.randint(16, 40))
        # the same report twice with a local (never applied) edit of the attributes in between
        yield {"body": bytes(b), "check": rng.choice(["crc", "sum"]), "prev_body": bytes(b), "edit": True}
        # an unsolicited report pushed on the idle connection, then the state changes, then the refresh
        yield {"body": bytes(_rand_body(rng, rng.randint(16, 40))), "check": rng.choice(["crc", "sum"]),
               "prev_body": bytes(_rand_body(rng, 23)), "push_body": bytes(_rand_body(rng, rng.choice([23, 24, 30]))),
               "push_type": rng.choice([3, 4, 5]), "edit": rng.random() < 0.3}


def _noisy(ctx, rng):
    """The reply shares its exchange with other frames: a damaged frame ahead of it, an unsolicited report of the same state
    around it; on V2 (one packet per segment) and on V3 with all packets of the exchange coalesced into one TCP segment."""
    for _ in range(200 if ctx.tier == "quick" else 8000):
        yield {"body": bytes(_rand_body(rng, rng.randint(16, 40))), "check": rng.choice(["crc", "sum"]), "junk_before": rng.choice([0, 1, 1, 2]),
               "dup_after": rng.choice([0, 0, 1]), "dup_before": rng.choice([0, 1]), "v3": rng.random() < 0.5, "label": "reply-among-other-frames"}


def generate(ctx, rng):
    batch = []
    n = 0
    for it in list(_check_values(ctx, rng)) + list(_histories(ctx, rng)) + list(_noisy(ctx, rng)):
        batch.append(it)
        if len(batch) == BATCH:
            yield ("xbatch", n), {"items": batch}
            n += 1
            batch = []
    if batch:
        yield ("xbatch", n), {"items": batch}
        n += 1
    batch = []
    for b, chk, prev in _with_history(ctx, rng):
        batch.append({"body": bytes(b), "check": chk, "prev_body": bytes(prev)})
        if len(batch) == BATCH:
            yield ("hbatch", n), {"items": batch}
            n += 1
            batch = []
    if batch:
        yield ("hbatch", n), {"items": batch}
        n += 1
    batch = []
    for b, chk in _bodies(ctx, rng):
        batch.append({"body": bytes(b), "check": chk})
        if len(batch) == BATCH:
            yield ("batch", n), {"items": batch}
            n += 1
            batch = []
    if batch:
        yield ("batch", n), {"items": batch}


def _expect_temp(ctx, item, name, got, raw, tenths, fahr):
    if raw == 0xFF:
        if got is not None:
            ctx.violation(f"{name}-sentinel", f"{name} temperature reported {got} for the 0xFF sentinel", {"items": [item]})
        return
    if got is None:
        ctx.violation(f"{name}-unknown", f"{name} temperature unknown although raw byte is 0x{raw:02X}", {"items": [item]})
        return
    coarse = (raw - 50) / 2
    if not abs(got - coarse) < 1:
        ctx.violation(f"{name}-range", f"{name} temperature {got} is not within one degree of coarse {coarse}", {"items": [item]},
                      {"raw": raw, "tenths": tenths, "fahrenheit": fahr})
        return
    if not fahr and 1 <= tenths <= 9:
        frac = abs(got) - int(abs(got))
        if abs(frac - tenths / 10) > 1e-9:
            ctx.violation(f"{name}-tenths", f"{name} temperature {got} does not reflect reported tenths digit {tenths}", {"items": [item]},
                          {"raw": raw, "tenths": tenths})


def run_case(ctx, case):
    items = case["items"]
    net = H.new_net()
    dev2 = SimDevice(net, version=2, device_id=0x42)
    tok3, key3 = bytes(range(64)), bytes(range(32))
    dev3 = SimDevice(net, host="10.0.0.3", version=3, token=tok3, key=key3, device_id=0x43)
    results = []
    cur = {"it": None}

    def noisy(d):
        def on_exchange(conn, req, packets, meta):
            it = cur["it"]
            if not it or not it.get("label") == "reply-among-other-frames" or not packets:
                return None
            from ..ref import acframe
            bad = bytearray(acframe.build(bytes(it["body"][:1]) + bytes(reversed(it["body"][1:])), 3))
            bad[-1] ^= 0x5A                                   # damaged frame: its checksum does not match
            dup = d.ac.state_frame(5)                         # an unsolicited report of the same state
            frames = [bytes(bad)] * it["junk_before"] + [dup] * it["dup_before"]
            out = [d.wrap(conn, f) for f in frames] + list(packets) + [d.wrap(conn, dup)] * it["dup_after"]
            if d.version == 3:
                return [(0, b"".join(out))]                   # one TCP segment
            return [(0, p) for p in out]
        return on_exchange

    dev2.on_exchange = noisy(dev2)
    dev3.on_exchange = noisy(dev3)

    async def go(loop):
        for it in items:
            cur["it"] = it
            dev = dev3 if it.get("v3") else dev2
            ac = AC(ip=dev.host, port=dev.port, device_id=dev.device_id)
            if it.get("v3"):
                await ac.authenticate(tok3, key3)
            dev.ac.header_fill = bytes(it.get("header_fill") or bytes(5))
            if it.get("prev_body"):
                dev.ac.raw_state_body = bytes(it["prev_body"])
                dev.ac.report_check = it["check"] if it.get("edit") else "crc"
                await ac.refresh()
            if it.get("edit"):
                # local, never applied edits
                ac.power_state = not ac.power_state
                ac.target_temperature = 17.0 if ac.target_temperature != 17.0 else 29.5
                ac.operational_mode = AC.OperationalMode.HEAT if ac.operational_mode != AC.OperationalMode.HEAT else AC.OperationalMode.COOL
                ac.fan_speed = 33 if ac.fan_speed != 33 else 66
                ac.eco, ac.turbo, ac.sleep = not ac.eco, not ac.turbo, not ac.sleep
                ac.target_humidity = 77 if ac.target_humidity != 77 else 33
            if it.get("push_body"):
                dev.ac.raw_state_body = bytes(it["push_body"])
                for c in dev.conns:
                    if not c.closed:
                        c.emit([(0, dev.wrap(c, dev.ac.state_frame(it["push_type"])))])
                await asyncio.sleep(0.05)
            dev.ac.raw_state_body = bytes(it["body"])
            dev.ac.report_check = it["check"]
            try:
                await ac.refresh()
            except Exception as e:  # noqa: BLE001
                results.append((it, "raised", e))
                continue
            st = H.public_state(ac)
            with warnings.catch_warnings():
                warnings.simplefilter("ignore")
                # the deprecated attribute names remain part of the public interface
                st["alias"] = {"eco": ac.eco_mode, "turbo": ac.turbo_mode, "sleep": ac.sleep_mode, "freeze_protection": ac.freeze_protection_mode}
            results.append((it, "ok", (ac.online, ac.supported, st)))

    H.run_virtual(go, net)
    for it, status, val in results:
        body = bytes(it["body"])
        ctx.count(body + it["check"].encode() + bytes(it.get("prev_body") or b"") + bytes(it.get("push_body") or b"") + bytes(it.get("header_fill") or b""),
                  kind="refresh-after-pushed-report-and-change" if it.get("push_body") else "refresh-same-report-after-local-edit" if it.get("edit") else
                  it["label"] if it.get("label") else "refresh-after-earlier-report" if it.get("prev_body") else f"refresh-len{len(body)}" if len(body) in (16, 19, 20, 21, 22, 40) else "refresh",
                  sample={"body": body, "check": it["check"]} if len(body) == 23 else None)
        one = {"items": [it]}
        if status == "raised":
            ctx.violation("refresh-raises", f"refresh() raised {type(val).__name__}: {val}", one)
            continue
        online, supported, got = val
        if not online or not supported:
            ctx.violation("valid-response-dropped", f"valid state response not used (online={online}, supported={supported})", one)
            continue
        exp = acstate.decode_0xC0(body)
        diffs = {}
        for f in ("power", "target_temperature", "fan", "eco", "turbo", "sleep", "fahrenheit", "follow_me", "purifier",
                  "filter_alert", "display_on", "target_humidity", "freeze_protection"):
            g = got[f]
            if g != exp[f] or (exp[f] is None) != (g is None):
                diffs[f] = (exp[f], g)
        for f, g in got["alias"].items():
            if g != exp[f]:
                diffs[f + "_mode(alias)"] = (exp[f], g)
        if (body[8] & 0x40) and (body[9] & 0x08):
            # both aux-heat flags reported: which of the two modes wins is not specified, but "off" is not among the candidates
            ctx.skip("both aux-heat bits set: precedence not judged (only that aux heat is not reported off)")
            if int(got["aux"]) not in (acstate.AUX_HEAT, acstate.AUX_ONLY):
                diffs["aux"] = ("AUX_HEAT or AUX_ONLY", int(got["aux"]))
        elif int(got["aux"]) != exp["aux"]:
            diffs["aux"] = (exp["aux"], int(got["aux"]))
        if exp["mode_raw"] in VALID_MODES:
            if int(got["mode"]) != exp["mode_raw"]:
                diffs["mode"] = (exp["mode_raw"], int(got["mode"]))
        else:
            ctx.skip("mode value outside enumeration not judged")
        if exp["swing_raw"] in VALID_SWING:
            if int(got["swing"]) != exp["swing_raw"]:
                diffs["swing"] = (exp["swing_raw"], int(got["swing"]))
        else:
            ctx.skip("swing value outside enumeration not judged")
        for f, (e, g) in diffs.items():
            ctx.violation(f"field-{f}", f"attribute {f} = {g!r} but the device reported {e!r}", one, {"body": body, "byte14": body[14]})
        _expect_temp(ctx, it, "indoor", got["indoor_temperature"], exp["indoor_raw"], exp["indoor_tenths"], exp["fahrenheit"])
        _expect_temp(ctx, it, "outdoor", got["outdoor_temperature"], exp["outdoor_raw"], exp["outdoor_tenths"], exp["fahrenheit"])
