"""C16 - property-protocol settings: sent once, correctly encoded, read back equal."""
from __future__ import annotations

import itertools
import random

from .. import harness as H
from ..ref import acprops
from ..simdev import ACModel, SimDevice

from msmart.device import AirConditioner as AC

ID = "C16"
LEVEL = "exploration"
RULE = ("a case = (device capability profile, history of setter calls / apply / refresh / start_self_clean) run against a simulated device "
        "that advertises the profile through its capability response and keeps a property store. Reference client/device model: an "
        "apply with no setting changed since the last apply sends zero 0xB0 frames; otherwise exactly one 0xB0 frame whose ids are the "
        "changed settings under the id the profile advertises (breeze: 0x0043 with breeze-control, else 0x0042 / 0x0018) plus the buzzer, "
        "each value being the vendor encoding of the public attribute at apply time; a refresh directly after the apply reads every "
        "changed setting back equal; at most one of breeze_away / breeze_mild / breezeless is true at every step; start_self_clean sends "
        "self-clean=1 (+ buzzer) at once. Exhaustive: all histories of depth <= 2 (quick) / <= 3 (thorough) over a per-profile alphabet "
        "(two values per supported setting + apply + refresh + self-clean + the ordinary swing-mode setter with two values; the random histories also change mode, fan, setpoint, power, eco, turbo and toggle the display in between: a property setting the user assigned must still read the same afterwards) for 14 profiles, each closed by apply, refresh; plus random "
        "histories up to length 20 over all enum values, in a third of which the unit refuses the writes to one setting for a while (result 0x11, value unchanged - later applies without a change must stay silent) and in another third a setter runs while apply() is waiting for the unit (that setting must go out with this or the next apply). distinct = (profile, history); non-trivial = histories with >= 1 setter")
ASSUMPTIONS = ["only settings the profile advertises are driven", "a setting changed before an intervening refresh may or may not be "
               "transmitted (statement silent); if it is, its value must match",
               "the simulated legacy device keeps breeze-away and breezeless mutually exclusive (switching one on switches the other off)",
               "read-back is judged when the refresh directly follows the apply"]
# reach anchors: only entry points this check calls itself or callbacks the event loop needs (robust against internal refactors);
# that the mechanism was really exercised is demanded through MIN_NONTRIVIAL / MIN_HIST outcome counts
ANCHORS = ["device.py:AirConditioner.apply", "device.py:AirConditioner.refresh", "device.py:AirConditioner.get_capabilities"]
MIN_NONTRIVIAL = {"quick": 2500, "thorough": 50000}
MIN_HIST = {"quick": {"apply-frames-checked": 3000, "readback-checked": 2000}, "thorough": {"apply-frames-checked": 80000, "readback-checked": 50000}}
WORKERS = {"quick": 1, "thorough": 16}
EXHAUSTIVE = {"quick": ["all histories of depth <= 2 over the per-profile alphabet, 14 profiles"],
              "thorough": ["all histories of depth <= 3 over the per-profile alphabet, 14 profiles"]}

# profile = (breeze, rate, ieco, angles, selfclean)
PROFILES = [
    ("control", 5, True, True, True), ("control", 2, False, False, False), ("control", 0, True, False, True),
    ("legacy-both", 5, False, True, False), ("legacy-both", 2, True, False, True), ("legacy-both", 0, False, False, False),
    ("legacy-away", 2, True, True, False), ("legacy-away", 0, False, False, True),
    ("legacy-breezeless", 5, True, False, False), ("legacy-breezeless", 0, False, True, True),
    ("none", 5, True, True, True), ("none", 0, False, False, False),
    # the largest profiles: seven advertised property ids
    ("legacy-both", 5, True, True, True), ("legacy-both", 2, True, True, True),
]


def _caps(profile):
    breeze, rate, ieco, angles, clean = profile
    caps = [(0x0214, b"\x01"), (0x0212, b"\x01")]
    if breeze == "control":
        caps.append((0x0043, b"\x01"))
    if breeze in ("legacy-both", "legacy-away"):
        caps.append((0x0042, b"\x01"))
    if breeze in ("legacy-both", "legacy-breezeless"):
        caps.append((0x0018, b"\x01"))
    if rate == 2:
        caps.append((0x0048, b"\x01"))
    if rate == 5:
        caps.append((0x0048, b"\x02"))
    if ieco:
        caps.append((0x00E3, b"\x01"))
    if angles:
        caps += [(0x0009, b"\x01"), (0x000A, b"\x01")]
    if clean:
        caps.append((0x0039, b"\x01"))
    return caps


def _initial_props(profile):
    breeze, rate, ieco, angles, clean = profile
    p = {}
    if breeze == "control":
        p[0x0043] = b"\x01"
    if breeze in ("legacy-both", "legacy-away"):
        p[0x0042] = b"\x01"
    if breeze in ("legacy-both", "legacy-breezeless"):
        p[0x0018] = b"\x00"
    if rate:
        p[0x0048] = b"\x64"
    if ieco:
        p[0x00E3] = b"\x00\x00"
    if angles:
        p[0x0009] = b"\x00"
        p[0x000A] = b"\x00"
    if clean:
        p[0x0039] = b"\x00"
    return p


def _settings(profile, full=False):
    """setting -> list of values to drive."""
    breeze, rate, ieco, angles, clean = profile
    s = {"beep": [True, False]}
    if breeze == "control":
        s["breeze_away"] = [True, False]
        s["breeze_mild"] = [True, False]
        s["breezeless"] = [True, False]
    if breeze in ("legacy-both", "legacy-away"):
        s["breeze_away"] = [True, False]
    if breeze in ("legacy-both", "legacy-breezeless"):
        s["breezeless"] = [True, False]
    if rate == 2:
        s["rate_select"] = [50, 75, 100] if full else [50, 100]
    if rate == 5:
        s["rate_select"] = [1, 20, 40, 60, 80, 100] if full else [20, 100]
    if ieco:
        s["ieco"] = [True, False]
    if angles:
        vals = [0, 1, 25, 50, 75, 100]
        s["vertical_swing_angle"] = vals if full else [25, 0]
        s["horizontal_swing_angle"] = vals if full else [100, 0]
    return s


def _alphabet(profile, full=False):
    letters = []
    for name, vals in _settings(profile, full).items():
        for v in vals:
            letters.append(["set", name, v])
    letters += [["apply"], ["refresh"]]
    if profile[4]:
        letters.append(["selfclean"])
    # settings of the ordinary control command, changed in between (they are not property-protocol settings)
    letters += [["other", "swing_mode", 0xF], ["other", "swing_mode", 0x0]]
    if full:
        letters += [["other", "swing_mode", 0xC], ["other", "swing_mode", 0x3], ["other", "operational_mode", 2], ["other", "operational_mode", 4],
                    ["other", "fan_speed", 60], ["other", "target_temperature", 24.5], ["other", "power_state", True], ["other", "eco", True],
                    ["other", "turbo", False], ["other", "display", None]]
    return letters


def generate(ctx, rng):
    quick = ctx.tier == "quick"
    dmax = 2 if quick else 3
    for pi, profile in enumerate(PROFILES):
        alpha = _alphabet(profile)
        for d in range(0, dmax + 1):
            for combo in itertools.product(range(len(alpha)), repeat=d):
                yield ("ex", pi, combo), {"profile": list(profile), "ops": [alpha[i] for i in combo] + [["apply"], ["refresh"]]}
    for j in range(900 if quick else 300000):
        profile = rng.choice(PROFILES)
        alpha = _alphabet(profile, full=True)
        n = rng.randint(3, 20)
        ops = [rng.choice(alpha) if rng.random() < 0.7 else rng.choice([["apply"], ["refresh"], ["caps"]]) for _ in range(n)]
        # now and then: the unit refuses writes to one setting for a while; a setter runs while an apply is waiting for the unit
        sets = [o for o in alpha if o[0] == "set" and o[1] != "beep"]
        if sets and j % 3 == 0:
            k = rng.randrange(len(ops) + 1)
            victim = rng.choice(sets)
            ops[k:k] = [["refuse", victim[1], True], victim, ["apply"], ["apply"], ["refresh"], ["apply"], ["refuse", victim[1], False]]
        if sets and j % 3 == 1:
            k = rng.randrange(len(ops) + 1)
            a, b = rng.choice(sets), rng.choice(sets)
            if a[1] != b[1] and not ({a[1], b[1]} <= {"breeze_away", "breeze_mild", "breezeless"}):
                ops[k:k] = [a, ["apply-while-setting", b[1], b[2]], ["refresh"]]
        yield ("rnd", j), {"profile": list(profile), "ops": ops + [["apply"], ["refresh"]], "clone": [None, None, None, "deepcopy", None, "pickle"][j % 6]}


def _setting_id(profile, name):
    breeze = profile[0]
    if name in ("breeze_away", "breeze_mild", "breezeless"):
        if breeze == "control":
            return acprops.P_BREEZE_CONTROL
        return acprops.P_BREEZE_AWAY if name == "breeze_away" else acprops.P_BREEZELESS
    return {"rate_select": acprops.P_RATE_SELECT, "ieco": acprops.P_IECO, "vertical_swing_angle": acprops.P_SWING_UD,
            "horizontal_swing_angle": acprops.P_SWING_LR}[name]


def _expected_value(ac, pid):
    """Vendor encoding of the public attribute at apply time."""
    if pid == acprops.P_BREEZE_CONTROL:
        mode = 2 if ac.breeze_away else 3 if ac.breeze_mild else 4 if ac.breezeless else 1
        return bytes([mode])
    if pid == acprops.P_BREEZE_AWAY:
        return b"\x02" if ac.breeze_away else b"\x01"
    if pid == acprops.P_BREEZELESS:
        return b"\x01" if ac.breezeless else b"\x00"
    if pid == acprops.P_RATE_SELECT:
        return bytes([int(ac.rate_select)])
    if pid == acprops.P_SWING_UD:
        return bytes([int(ac.vertical_swing_angle)])
    if pid == acprops.P_SWING_LR:
        return bytes([int(ac.horizontal_swing_angle)])
    if pid == acprops.P_IECO:
        return None          # 13 bytes: frame, number, switch, ... ; only switch (byte 2) is judged
    if pid == acprops.P_BUZZER:
        return bytes([1 if ac.beep else 0])
    raise KeyError(pid)


def _attr(ac, name):
    v = getattr(ac, name)
    return int(v) if name in ("rate_select", "vertical_swing_angle", "horizontal_swing_angle") else v


def run_case(ctx, case):
    profile = tuple(case["profile"])
    ops = case["ops"]
    net = H.new_net()
    model = ACModel()
    model.caps_pages = [_caps(profile)]
    model.props = _initial_props(profile)
    dev = SimDevice(net, version=2, device_id=0xC16, ac=model)
    viol = []
    stats = {"apply": 0, "readback": 0, "readback2": 0}
    slow = {"on": False}
    keep = {}

    def on_exchange(conn, req, packets, meta):
        from ..ref import acframe
        if slow["on"] and acframe.parse_command(req)["body"][0] == 0x40:
            slow["on"] = False
            return [(0.3, p) for p in packets]          # the unit takes its time to acknowledge the control command
        return None

    dev.on_exchange = on_exchange

    async def go(loop):
        ac = AC(ip=dev.host, port=dev.port, device_id=dev.device_id)
        if case.get("clone"):
            # the application keeps a never-connected template object and works with copies of it
            import copy
            import pickle
            keep["template"] = ac
            try:
                ac = copy.deepcopy(ac) if case["clone"] == "deepcopy" else (copy.copy(ac) if case["clone"] == "copy" else pickle.loads(pickle.dumps(ac)))
            except Exception:  # noqa: BLE001 - nothing promises that the object can be copied; the application uses the original
                pass
        await ac.get_capabilities()
        await ac.refresh()
        fresh = set()      # settings changed since the last apply or refresh
        maybe = set()      # settings changed before an intervening refresh (since the last apply)
        last_apply = None  # (step, {setting: value at apply time}) for the read-back check
        userset = {}       # setting -> value the user assigned since the last refresh
        for step, op in enumerate(ops):
            if op[0] == "other":
                _, name, val = op
                if name == "display":
                    await ac.toggle_display()      # an exchange that ends in a refresh: the attributes follow what the device reports
                    userset.clear()
                    last_apply = None
                    maybe |= fresh
                    fresh = set()
                elif name == "swing_mode":
                    ac.swing_mode = AC.SwingMode(val)
                elif name == "operational_mode":
                    ac.operational_mode = AC.OperationalMode(val)
                else:
                    setattr(ac, name, val)
                for n2, v2 in userset.items():
                    if _attr(ac, n2) != v2:
                        viol.append((f"setting-changed-by-other-setter/{n2}", f"{n2} was set to {v2!r} but reads {_attr(ac, n2)!r} after {name} was set", step))
            elif op[0] == "set":
                _, name, val = op
                if name == "rate_select":
                    setattr(ac, name, AC.RateSelect(val))
                elif name.endswith("swing_angle"):
                    setattr(ac, name, AC.SwingAngle(val))
                else:
                    setattr(ac, name, val)
                if _attr(ac, name) != val:
                    # what the application assigned is what the attribute reads right afterwards (and what the next apply encodes)
                    viol.append((f"setter-not-reflected/{name}", f"{name} assigned {val!r} reads {_attr(ac, name)!r} immediately afterwards", step))
                if name != "beep":
                    fresh.add(name)
                    if name in ("breeze_away", "breeze_mild", "breezeless"):
                        for b in ("breeze_away", "breeze_mild", "breezeless"):
                            userset.pop(b, None)       # breeze modes exclude each other: only the last one set is tracked
                    userset[name] = _attr(ac, name)
                last_apply = None if last_apply and name in last_apply[1] else last_apply
            elif op[0] == "refuse":
                pid = _setting_id(profile, op[1])
                (model.prop_refuse.add if op[2] else model.prop_refuse.discard)(pid)
            elif op[0] == "apply-while-setting":
                # apply() is waiting for the unit when another task of the application changes one more setting; that setting must
                # go out with this apply or with the next one - once
                import asyncio
                _, name, val = op
                n0 = len(model.prop_sets)
                slow["on"] = True
                task = asyncio.ensure_future(ac.apply())
                await asyncio.sleep(0.1)
                if name == "rate_select":
                    setattr(ac, name, AC.RateSelect(val))
                elif name.endswith("swing_angle"):
                    setattr(ac, name, AC.SwingAngle(val))
                else:
                    setattr(ac, name, val)
                want = _expected_value(ac, _setting_id(profile, name))
                ieco_sw = ac.ieco
                await task
                n1 = len(model.prop_sets)
                await ac.apply()
                slow["on"] = False
                pid = _setting_id(profile, name)
                first = [v for f in model.prop_sets[n0:n1] for p, v in f if p == pid]      # property write of the overlapped apply
                second = [v for f in model.prop_sets[n1:] for p, v in f if p == pid]      # ... of the apply after it
                stats["apply"] += 1

                def carries(v):
                    if pid == acprops.P_IECO:
                        return len(v) == 13 and v[2] == (1 if ieco_sw else 0)
                    return v == want

                if not second and not any(carries(v) for v in first):
                    viol.append(("changed-property-not-sent", f"{name} set while an apply was waiting for the unit was not transmitted by that apply "
                                 f"(wrote {[v.hex() for v in first]}) nor by the next", step))
                elif second and not first and not carries(second[-1]):
                    # (when the overlapped apply was itself writing this id, the unit's report of that write may legitimately have
                    # replaced the attribute before the next apply reads it: the value is then not judged)
                    viol.append((f"value-encoding/0x{pid:04x}", f"{name} set during an apply went out as {second[-1].hex()}, attribute encoded to "
                                 f"{want.hex() if want is not None else 'iECO switch %r' % ieco_sw}", step))
                elif first and not any(carries(v) for v in first):
                    stats["overlap-same-id"] = stats.get("overlap-same-id", 0) + 1
                fresh, maybe, last_apply = set(), set(), None
                userset.clear()
            elif op[0] == "apply":
                n0 = len(model.prop_sets)
                at_apply = {n: _attr(ac, n) for n in fresh}
                exp_vals = {}
                for pid in {_setting_id(profile, n) for n in fresh | maybe} | {acprops.P_BUZZER}:
                    exp_vals[pid] = _expected_value(ac, pid)
                ieco_switch = ac.ieco
                await ac.apply()
                frames = model.prop_sets[n0:]
                stats["apply"] += 1
                must = {_setting_id(profile, n) for n in fresh}
                may = {_setting_id(profile, n) for n in maybe}
                if not fresh and not maybe:
                    if frames:
                        viol.append(("unchanged-property-resent", f"apply with no changed property sent {len(frames)} property write(s): "
                                     f"{[[hex(p) for p, _ in f] for f in frames]}", step))
                elif fresh and len(frames) != 1:
                    viol.append(("property-write-count", f"{len(frames)} property writes for changed settings {sorted(fresh)}", step))
                elif len(frames) > 1:
                    viol.append(("property-write-count", f"{len(frames)} property writes in one apply", step))
                for f in frames[:1]:
                    ids = [p for p, _ in f]
                    if len(set(ids)) != len(ids):
                        viol.append(("duplicate-property-id", f"ids {ids}", step))
                    missing = must - set(ids)
                    extra = set(ids) - must - may - {acprops.P_BUZZER}
                    if missing:
                        viol.append(("changed-property-not-sent", f"changed settings {sorted(fresh)} need ids {sorted(map(hex, must))}, sent {sorted(map(hex, ids))}", step))
                    if extra:
                        viol.append(("unchanged-property-resent", f"ids {sorted(map(hex, extra))} sent although not changed", step))
                    if acprops.P_BUZZER not in ids:
                        viol.append(("buzzer-missing", "property write without the buzzer property", step))
                    for pid, value in f:
                        if pid == acprops.P_IECO:
                            if len(value) != 13 or value[2] != (1 if ieco_switch else 0) or value[1] != 1:
                                viol.append(("value-encoding/ieco", f"iECO value {value.hex()} for ieco={ieco_switch}", step))
                        elif pid in exp_vals and exp_vals[pid] is not None and value != exp_vals[pid]:
                            viol.append((f"value-encoding/0x{pid:04x}", f"property 0x{pid:04X} sent as {value.hex()} but the attribute encodes to {exp_vals[pid].hex()}", step))
                at_apply = {n2: v2 for n2, v2 in at_apply.items() if _setting_id(profile, n2) not in model.prop_refuse}
                last_apply = (step, at_apply) if at_apply else None
                for n2 in list(userset):
                    if _setting_id(profile, n2) in model.prop_refuse:
                        userset.pop(n2)        # the unit refused the write: the attribute follows what the unit reports
                fresh, maybe = set(), set()
            elif op[0] == "refresh":
                await ac.refresh()
                userset.clear()
                if last_apply is not None and last_apply[0] == step - 1:
                    for name, val in last_apply[1].items():
                        stats["readback"] += 1
                        got = _attr(ac, name)
                        if got != val:
                            viol.append((f"readback/{name}", f"{name} applied as {val!r} reads back {got!r}", step))
                    # ... and by a second client of the same unit (the application restarted): its attributes start from the
                    # defaults, so only what its refresh really asks the unit for can read back equal
                    if last_apply[1] and not viol:
                        ac2 = AC(ip=dev.host, port=dev.port, device_id=dev.device_id)
                        await ac2.get_capabilities()
                        await ac2.refresh()
                        for name, val in last_apply[1].items():
                            stats["readback2"] += 1
                            got = _attr(ac2, name)
                            if got != val:
                                viol.append((f"readback/{name}", f"{name} applied as {val!r} reads back {got!r} on a second client of the same unit", step))
                last_apply = None
                maybe |= fresh
                fresh = set()
            elif op[0] == "caps":
                await ac.get_capabilities()      # re-querying the (unchanged) profile must not disturb pending settings
            elif op[0] == "selfclean":
                n0 = len(model.prop_sets)
                beep = ac.beep
                await ac.start_self_clean()
                frames = model.prop_sets[n0:]
                if len(frames) != 1 or dict(frames[0]).get(acprops.P_SELF_CLEAN) != b"\x01" or acprops.P_BUZZER not in dict(frames[0]):
                    viol.append(("self-clean-write", f"start_self_clean sent {[[(hex(p), v.hex()) for p, v in f] for f in frames]}", step))
                elif dict(frames[0])[acprops.P_BUZZER] != bytes([1 if beep else 0]):
                    viol.append((f"value-encoding/0x{acprops.P_BUZZER:04x}", f"self-clean write carries buzzer {dict(frames[0])[acprops.P_BUZZER].hex()} but beep={beep}", step))
                else:
                    await ac.refresh()
                    userset.clear()
                    if not ac.self_clean_active:
                        viol.append(("readback/self_clean", "self clean started but not read back active", step))
            if sum([bool(ac.breeze_away), bool(ac.breeze_mild), bool(ac.breezeless)]) > 1:
                viol.append(("several-breeze-modes", "more than one breeze mode reported active", step))

    key = ("h", profile, tuple(tuple(o) for o in ops))
    try:
        H.run_virtual(go, net)
    except Exception as e:  # noqa: BLE001
        ctx.count(key, kind="history-raised")
        ctx.violation(f"history-raises/{type(e).__name__}", f"{type(e).__name__}: {e}", case)
        return
    nset = sum(1 for o in ops if o[0] == "set")
    ctx.count(key, nontrivial=nset > 0, kind=f"history-{profile[0]}", sample={"profile": list(profile), "ops": ops} if nset >= 2 else None)
    ctx.bump("apply-frames-checked", stats["apply"])
    ctx.bump("readback-checked", stats["readback"])
    ctx.bump("readback-by-second-client-checked", stats["readback2"])
    ctx.bump("setter-during-apply: same id already in flight, value not judged", stats.get("overlap-same-id", 0))
    for rej in model.rejected[:1]:
        ctx.violation("device-rejects-frame", f"device rejected a frame: {rej[1]}", case)
    for mech, what, step in viol[:4]:
        if mech.startswith("readback/breeze") and profile[0] == "legacy-both":
            mech = "readback/legacy-breeze-overwritten"
        ctx.violation(mech, f"step {step} ({ops[step]}): {what} [profile {profile}]", case)
