"""C14 - application containment: no device response makes an operation raise; decodable frames still applied."""
from __future__ import annotations

from .. import harness as H
from ..ref import acframe, acprops, acstate
from ..simdev import ACModel, SimDevice
from . import c13

from msmart.device import AirConditioner as AC

ID = "C14"
LEVEL = "fault_enumeration"
RULE = ("a case = one malformed-but-checksum-valid response frame (or a mix of such frames with one good state frame) that the simulated "
        "device returns as the answer to every command of refresh(), apply(), get_capabilities(), toggle_display() and start_self_clean(). "
        "The client is fresh or has learned a full capability profile first. Families: every valid response kind with its body truncated to every shorter length (incl. the empty body and the empty frame, "
        "checks recomputed), raw frame truncations with the last byte fixed up, every count/size byte set to every value 0..255, every "
        "response id 0..255 x frame types {2,3,4,5,6,0xA0} with random bodies, mixes [bad.., good, bad..] for state reports, for capability replies (one page, or two pages with the junk around the additional page) and for property reports (one or two decodable reports among undecodable property frames); pairs of decodable but degenerate reports (all-zero / all-ones / non-BCD energy and humidity groups, short and odd state reports) one after the other on a client that polls energy in both formats; a one-record capability profile with any value learned first and state reports with unusual fan/mode/swing values afterwards. Oracle: no exception escapes any "
        "of the five operations; in a mix the good frame's state (reference decode) is visible afterwards. distinct = distinct frame bytes "
        "x operation; non-trivial = the frame passes the outer checksum (so it reaches the parsers)")
ASSUMPTIONS = ["frames are delivered inside authentic V2 packets (transport-level malformation is C09's business)",
               "the good frame in a mix is a state response decoded per the C11 reference"]
# reach anchors: only entry points this check calls itself or callbacks the event loop needs (robust against internal refactors);
# that the mechanism was really exercised is demanded through MIN_NONTRIVIAL / MIN_HIST outcome counts
ANCHORS = ["command.py:Response.construct", "device.py:AirConditioner.get_capabilities", "device.py:AirConditioner.refresh", "device.py:AirConditioner.apply",
           "device.py:AirConditioner.toggle_display", "device.py:AirConditioner.start_self_clean"]
MIN_NONTRIVIAL = {"quick": 5000, "thorough": 60000}
MIN_HIST = {"quick": {"mix-good-applied": 150}, "thorough": {"mix-good-applied": 2000}}
WORKERS = {"quick": 1, "thorough": 16}
EXHAUSTIVE = {t: ["every body truncation length of 5 response kinds (both check styles)", "every raw truncation length",
                  "count byte 0..255 for capabilities and properties", "response ids 0..255 x 6 frame types"] for t in ("quick", "thorough")}

OPS = ["refresh", "apply", "caps", "toggle", "selfclean"]
BATCH = 40


def _rebuild(body: bytes, ftype=acframe.FT_QUERY, check="crc") -> bytes:
    return acframe.build(body, ftype, check=check)


def _frames(ctx, rng):
    quick = ctx.tier == "quick"
    valid = c13._valid_frames("crc")
    yield "empty-frame", b""
    yield "one-byte", b"\xaa"
    for kind, frame in valid.items():
        body = frame[10:-2]
        ftype = frame[9]
        for chk in ("crc", "sum"):
            for k in range(len(body)):
                yield f"trunc-body-{kind}", _rebuild(body[:k], ftype, chk)
        yield f"trunc-nocheck-{kind}", acframe.build(b"", ftype, check="none")
        for m in range(2, len(frame)):
            c = bytearray(frame[:m])
            c[-1] = acframe.checksum(c[1:-1])
            yield f"trunc-raw-{kind}", bytes(c)
            c2 = bytearray(frame[:m])
            c2[1] = (m - 1) & 0xFF
            c2[-1] = acframe.checksum(c2[1:-1])
            yield f"trunc-raw-{kind}", bytes(c2)
    # truncated (legacy-length) state responses for every mode / flag byte combination: decodable, leave optional fields unknown,
    # and are followed by apply() etc. on the same object
    sbody = bytearray(valid["state"][10:-2])
    for mode in range(8):
        for ln in (16, 17, 18, 19, 20, 21, 22):
            for b1 in (0x00, 0x01):
                b = bytearray(sbody[:ln])
                b[1] = b1
                b[2] = (mode << 5) | (b[2] & 0x1F)
                yield "short-state-modes", _rebuild(bytes(b), acframe.FT_QUERY, "crc")
    # count / size fields
    caps_body = bytearray(valid["caps"][10:-2])
    props_body = bytearray(valid["props"][10:-2])
    size_vals = list(range(256)) if not quick else sorted(set([0, 1, 2, 3, 5, 6, 7, 8, 9, 10, 16, 32, 64, 127, 128, 200, 254, 255] + rng.sample(range(256), 30)))
    for v in range(256):
        b = bytearray(caps_body)
        b[1] = v
        yield "caps-count", _rebuild(bytes(b))
        b = bytearray(props_body)
        b[1] = v
        yield "props-count", _rebuild(bytes(b))
    # size bytes of every record
    i = 2
    while i + 3 <= len(caps_body) - 2:
        for v in size_vals:
            b = bytearray(caps_body)
            b[i + 2] = v
            yield "caps-size", _rebuild(bytes(b))
        i += 3 + caps_body[i + 2]
    i = 2
    while i + 4 <= len(props_body):
        for v in size_vals:
            b = bytearray(props_body)
            b[i + 3] = v
            yield "props-size", _rebuild(bytes(b))
        i += 4 + props_body[i + 3]
    # capability records cut short at the very end of the body (size pointing past the end, no tail)
    for cid, n in ((0x0225, 7), (0x0214, 1), (0x0212, 1), (0x9999, 4)):
        for have in range(0, n + 1):
            for claimed in (n, n + 3, 255):
                b = bytes([0xB5, 1, cid & 0xFF, cid >> 8, claimed]) + bytes(range(30, 30 + have))
                yield "caps-record-past-end", _rebuild(b)
    for pid in acprops.SUPPORTED + (0x7777,):
        for have in range(0, 3):
            for claimed in (1, 2, 13, 255):
                b = bytes([0xB1, 1, pid & 0xFF, pid >> 8, 0x00, claimed]) + bytes(range(1, 1 + have))
                yield "props-record-past-end", _rebuild(b)
    # well-formed property / capability records carrying every value 0..255
    vals = list(range(256)) if not quick else sorted(set(list(range(0, 12)) + [25, 50, 75, 100, 101, 127, 128, 254, 255] + rng.sample(range(256), 16)))
    for pid in acprops.SUPPORTED:
        for v in vals:
            val = bytes([v, v]) if pid == acprops.P_IECO else bytes([v])
            for rid in (0xB1, 0xB0):
                yield "props-value", _rebuild(acprops.build_report(rid, [(pid, 0x00, val)]))
            yield "props-value", _rebuild(acprops.build_report(0xB1, [(pid, 0x10, val)]))
    for cid in (0x0009, 0x000A, 0x0018, 0x0030, 0x0032, 0x0033, 0x0039, 0x0040, 0x0042, 0x0043, 0x0048, 0x004B, 0x00E3, 0x0210, 0x0212,
                0x0213, 0x0214, 0x0215, 0x0216, 0x0217, 0x0219, 0x021A, 0x021E, 0x021F, 0x0221, 0x0222, 0x0224, 0x0225, 0x022C):
        for v in vals:
            val = bytes([v] * 7) if cid == 0x0225 else bytes([v])
            yield "caps-value", _rebuild(acprops.build_caps([(cid, val)], bool(v & 1)))
    # group data with odd group nibbles / short
    for grp in range(16):
        for ln in (4, 5, 8, 12, 16, 18, 19, 21):
            b = bytearray(ln)
            b[0:4] = bytes([0xC1, 0x21, 0x01, 0x40 | grp])
            yield "group-data", _rebuild(bytes(b))
    # frames whose outer checksum is WRONG (the error path itself must not raise), for every frame-type byte and other header bytes
    for ft in range(256):
        f = bytearray(_rebuild(bytes([0xC0]) + rng.randbytes(22), ft))
        f[-1] ^= 0x3C
        yield "bad-checksum-frametype", bytes(f)
    for pos in (1, 2, 3, 8):
        for v in (0x00, 0x01, 0x7F, 0x80, 0xFF):
            f = bytearray(valid["state"])
            f[pos] = v
            yield "bad-checksum-header", bytes(f)
    # ids x frame types
    for rid in range(256):
        for ft in (2, 3, 4, 5, 6, 0xA0):
            for _ in range(1 if quick else 4):
                ln = rng.choice([0, 1, 2, 3, 8, 15, 16, 19, 21, 22, 30])
                yield "id-type", _rebuild(bytes([rid]) + rng.randbytes(ln), ft, rng.choice(["crc", "sum"]))
    for _ in range(300 if quick else 450000):
        rid = rng.choice([0xC0, 0xC1, 0xB5, 0xB0, 0xB1, 0xA0, 0xA1, rng.randrange(256)])
        yield "random-body", _rebuild(bytes([rid]) + rng.randbytes(rng.randint(0, 60)), rng.choice([2, 3, 4, 5, 6]), rng.choice(["crc", "sum"]))


def generate(ctx, rng):
    batch, n = [], 0
    for fam, frame in _frames(ctx, rng):
        batch.append({"family": fam, "frame": frame})
        if len(batch) == BATCH:
            # every third batch runs on a client that has learned a full capability profile first (properties registered,
            # energy / humidity polling on): the same frames then meet different client state
            yield ("frames", n), {"kind": "frames", "items": batch, "with_caps": n % 3 == 1}
            batch, n = [], n + 1
    if batch:
        yield ("frames", n), {"kind": "frames", "items": batch, "with_caps": False}
    # the property / capability / short-state families again, all of them on a client with capabilities
    fr = [x for x in _frames(ctx, rng) if x[0].startswith(("props-", "short-state", "trunc-body-props", "trunc-body-state", "group", "caps-value"))]
    rng.shuffle(fr)
    fr = fr[: (600 if ctx.tier == "quick" else 30000)]
    for i in range(0, len(fr), BATCH):
        n += 1
        yield ("frames-caps", n), {"kind": "frames", "items": [{"family": f, "frame": b} for f, b in fr[i:i + BATCH]], "with_caps": True}
    # mixes
    pool = [f for _, f in _frames_small(rng)]
    for j in range(200 if ctx.tier == "quick" else 30000):
        st = {**acstate.default_state(), "power": rng.random() < 0.5, "mode": rng.randint(1, 5), "target_temperature": rng.choice([17.0, 22.5, 30.0]),
              "fan": rng.choice([20, 40, 55, 60, 80, 102]), "eco": rng.random() < 0.5, "target_humidity": rng.randint(30, 70)}
        before = [rng.choice(pool) for _ in range(rng.randint(0, 3))]
        after = [rng.choice(pool) for _ in range(rng.randint(0, 3))]
        yield ("mix", j), {"kind": "mix", "state": st, "before": before, "after": after}
    # histories: two decodable (but possibly degenerate: all zero, all ones, non-BCD digits) reports one after the other on a client
    # that polls energy and humidity - what the first one left behind meets the second one
    pool = _degenerate_pool()
    pairs = [(a, b) for a in range(len(pool)) for b in range(len(pool))]
    rng.shuffle(pairs)
    for i in range(0, len(pairs) if ctx.tier != "quick" else min(len(pairs), 450), 30):
        yield ("seq", i), {"kind": "seq", "pairs": pairs[i:i + 30]}
    unsol = _unsolicited_b5(rng)
    # a (malformed but decodable) capability *query response* ahead of the genuine one is legitimately the one used
    noncaps = [f for f in pool if not (len(f) > 10 and f[10] == 0xB5 and f[9] == acframe.FT_QUERY)][:60]
    for j in range(60 if ctx.tier == "quick" else 7500):
        before = [rng.choice(unsol + noncaps) for _ in range(rng.randint(1, 3))]
        after = [rng.choice(unsol + noncaps) for _ in range(rng.randint(0, 2))]
        # a later *well-formed* capabilities response would legitimately not be merged; keep only non-capability classes after
        yield ("capsmix", j), {"kind": "capsmix", "before": before, "after": after, "split": [None, 0, 3, 6, len(c13.CAPS1)][j % 5]}
    # a decodable properties response next to undecodable property frames (and a second decodable one) in the same exchange
    # malformed property frames that never mention the two swing-angle ids (a frame that decodably reports them would
    # legitimately decide the outcome)
    obody = acprops.build_report(0xB1, [(0x0039, 0, b"\x01"), (0x0042, 0, b"\x02"), (0x00E3, 0, b"\x01\x01"), (0x0018, 0, b"\x01")])
    badprops = [_rebuild(obody[:k], acframe.FT_QUERY, chk) for k in range(len(obody)) for chk in ("crc", "sum")]
    for v in (0, 5, 9, 64, 255):
        b = bytearray(obody)
        b[1] = v
        badprops.append(_rebuild(bytes(b)))
    for pid in (0x0039, 0x0042, 0x0018, 0x00E3, 0x001A, 0x0043, 0x0048, 0x7777):
        for have in range(0, 3):
            for claimed in (3, 13, 255):
                badprops.append(_rebuild(bytes([rng.choice([0xB1, 0xB0]), 1, pid & 0xFF, pid >> 8, 0x00, claimed]) + bytes(range(1, 1 + have))))
    badprops += [_rebuild(b"\xb1"), _rebuild(b"\xb0"), _rebuild(b"\xb1\x03"), _rebuild(b"\xb1\x01\x39")]
    for j in range(150 if ctx.tier == "quick" else 20000):
        yield ("propsmix", j), {"kind": "propsmix", "ud": rng.choice([0, 1, 25, 50, 75, 100]), "lr": rng.choice([0, 1, 25, 50, 75, 100]),
                                "before": [rng.choice(badprops) for _ in range(rng.randint(0, 2))],
                                "after": [rng.choice(badprops) for _ in range(rng.randint(0, 3))], "one_frame": j % 2 == 0}
    # a capability profile with one record carrying any value, learned first; then state reports with unusual field values
    cids = (0x0009, 0x000A, 0x0018, 0x0030, 0x0032, 0x0033, 0x0039, 0x0040, 0x0042, 0x0043, 0x0048, 0x004B, 0x00E3, 0x0210, 0x0212,
            0x0213, 0x0214, 0x0215, 0x0216, 0x0217, 0x0219, 0x021A, 0x021E, 0x021F, 0x0221, 0x0222, 0x0224, 0x0225, 0x022C)
    seqs = []
    for cid in cids:
        for v in (range(256) if ctx.tier != "quick" else sorted(set(list(range(0, 12)) + [100, 127, 128, 255] + rng.sample(range(256), 8)))):
            seqs.append((cid, v))
    for i in range(0, len(seqs), 24):
        yield ("caps-then-state", i), {"kind": "caps-then-state", "records": seqs[i:i + 24], "sseed": rng.getrandbits(32)}


def _degenerate_pool():
    out = []
    for grp, n in ((0x44, 21), (0x45, 21), (0x41, 21), (0x42, 21), (0x43, 21), (0x40, 21)):
        for fill in (0x00, 0xFF, 0x99, 0x12, 0xAA, 0x09):
            b = bytearray([fill] * n)
            b[0:4] = bytes([0xC1, 0x21, 0x01, grp])
            out.append(acframe.build(bytes(b), acframe.FT_QUERY))
        b = bytearray(n)
        b[0:4] = bytes([0xC1, 0x21, 0x01, grp])
        b[4:8] = bytes([0x00, 0x12, 0x34, 0x56])
        b[12:16] = bytes([0x00, 0x00, 0x07, 0x89])
        b[16:19] = bytes([0x00, 0x15, 0x50])
        out.append(acframe.build(bytes(b), acframe.FT_QUERY))
    for st in ({}, {"power": True, "target_temperature": 30.0, "fan": 102}, {"target_humidity": 0}, {"target_humidity": 100}):
        for ln in (16, 19, 23, 24):
            out.append(acframe.build(acstate.encode_0xC0({**acstate.default_state(), **st}, ln), acframe.FT_QUERY))
    for ov in ({11: 0xFF, 12: 0xFF}, {11: 0, 12: 0, 15: 0x99}, {3: 0}, {3: 127}, {2: 0xFF}, {7: 0xFF}):
        out.append(acframe.build(acstate.encode_0xC0(acstate.default_state(), 23, ov), acframe.FT_QUERY))
    return out


def _seq(ctx, case):
    pool = _degenerate_pool()
    net = H.new_net()
    dev = SimDevice(net, version=2, device_id=0x94)
    cur = {"frames": []}
    dev.on_exchange = lambda conn, req, packets, meta: [(0, dev.wrap(conn, f)) for f in cur["frames"]]
    full_caps = acframe.build(acprops.build_caps(c13.CAPS0 + [(0x0043, b"\x01"), (0x0048, b"\x02")], False), acframe.FT_QUERY)
    out = []

    async def go(loop):
        for a, b in case["pairs"]:
            ac = AC(ip=dev.host, port=dev.port, device_id=dev.device_id)
            cur["frames"] = [full_caps]
            await ac.get_capabilities()
            ac.enable_energy_usage_requests = True
            for binary in (False, True):
                ac.use_alternate_energy_format = binary
                for idx in (a, b, a):
                    cur["frames"] = [pool[idx]]
                    for op in ("refresh", "apply"):
                        try:
                            await _do(ac, op)
                            out.append((a, b, idx, op, None))
                        except Exception as e:  # noqa: BLE001
                            out.append((a, b, idx, op, e))

    H.run_virtual(go, net)
    for a, b, idx, op, exc in out:
        ctx.count(("seq", a, b, idx, op), kind="report-after-report")
        if exc is not None:
            ctx.violation(f"{type(exc).__name__}/report-after-report", f"{op} raised {type(exc).__name__}: {exc} for a decodable report that follows another one "
                          f"on the same client (pool entries {a} -> {b})", {"kind": "seq", "pairs": [(a, b)]}, {"frame": pool[idx]})


def _capsmix(ctx, case):
    """Unsolicited / malformed frames around a genuine capabilities response: result must equal the genuine response alone."""
    split = case.get("split")
    if split is None:
        pages = [acframe.build(acprops.build_caps(c13.CAPS1, False), acframe.FT_QUERY)]
    else:
        # the profile arrives in two pages; the junk surrounds the additional page in the second exchange
        pages = [acframe.build(acprops.build_caps(c13.CAPS1[:split], True), acframe.FT_QUERY),
                 acframe.build(acprops.build_caps(c13.CAPS1[split:], False), acframe.FT_QUERY)]
    junk_b = [bytes(f) for f in case["before"]]
    junk_a = [bytes(f) for f in case["after"]]
    snaps = []
    for junk in (False, True):
        net = H.new_net()
        dev = SimDevice(net, version=2, device_id=0x97)
        nx = {"n": 0}

        def on_exchange(conn, req, packets, meta, junk=junk, nx=nx):
            page = pages[min(nx["n"], len(pages) - 1)]
            last = nx["n"] >= len(pages) - 1
            nx["n"] += 1
            frames = (junk_b + [page] + junk_a) if (junk and last) else [page]
            return [(0, dev.wrap(conn, f)) for f in frames]

        dev.on_exchange = on_exchange
        frames = (junk, split)

        async def go(loop):
            ac = AC(ip=dev.host, port=dev.port, device_id=dev.device_id)
            await ac.get_capabilities()
            return c13._snapshot(ac)[1]

        try:
            snap, loop = H.run_virtual(go, net)
        except Exception as e:  # noqa: BLE001
            ctx.count(("capsmix", tuple(frames)), kind="capsmix-raised")
            ctx.violation(f"{type(e).__name__}/capsmix", f"get_capabilities raised {type(e).__name__}: {e} with unsolicited frames around the reply", case)
            return
        snaps.append(snap)
    key = ("capsmix", tuple(junk_b), tuple(junk_a))
    if snaps[0] != snaps[1]:
        ctx.count(key, kind="capsmix-lost")
        diff = {k: (snaps[0][k], snaps[1][k]) for k in snaps[0] if snaps[0][k] != snaps[1][k]}
        ctx.violation("good-caps-not-applied", "genuine capabilities response in a mixed exchange was not applied", case, {"diff": diff})
    else:
        ctx.count(key, kind="mix-good-applied")


def _unsolicited_b5(rng):
    """0xB5-id frames that are not capability query responses (frame types 4/5/6/2), bodies random or short."""
    out = []
    for ft in (2, 4, 5, 6, 0xA0):
        for ln in (0, 1, 2, 5, 12):
            out.append(_rebuild(bytes([0xB5]) + rng.randbytes(ln), ft))
    return out


def _frames_small(rng):
    class _C:
        tier = "quick"
    fr = list(_frames(_C, rng))
    # keep the malformed families only (a well-formed extra state frame would legitimately win over the good one)
    fr = [x for x in fr if x[0].startswith(("trunc", "empty", "one-byte", "caps-", "props-", "group"))]
    # a truncated state body of >= 16 bytes is itself a decodable (legacy, short) state response
    fr = [x for x in fr if not (len(x[1]) >= 28 and x[1][10] == 0xC0)]
    rng.shuffle(fr)
    return fr[:400]


def _propsmix(ctx, case):
    """Decodable property reports among undecodable property frames in one exchange, on a client that knows the features."""
    caps = acframe.build(acprops.build_caps([(0x0009, b"\x01"), (0x000A, b"\x01"), (0x0214, b"\x01")], False), acframe.FT_QUERY)
    state = acframe.build(acstate.encode_0xC0(acstate.default_state(), 23), acframe.FT_QUERY)
    if case["one_frame"]:
        good = [acframe.build(acprops.build_report(0xB1, [(0x0009, 0, bytes([case["ud"]])), (0x000A, 0, bytes([case["lr"]]))]), acframe.FT_QUERY)]
    else:
        good = [acframe.build(acprops.build_report(0xB1, [(0x0009, 0, bytes([case["ud"]]))]), acframe.FT_QUERY),
                acframe.build(acprops.build_report(0xB1, [(0x000A, 0, bytes([case["lr"]]))]), acframe.FT_QUERY)]
    bad_b, bad_a = [bytes(f) for f in case["before"]], [bytes(f) for f in case["after"]]
    net = H.new_net()
    dev = SimDevice(net, version=2, device_id=0x96)
    cur = {"frames": [caps]}
    dev.on_exchange = lambda conn, req, packets, meta: [(0, dev.wrap(conn, f)) for f in cur["frames"]]

    async def go(loop):
        ac = AC(ip=dev.host, port=dev.port, device_id=dev.device_id)
        await ac.get_capabilities()
        if len(good) == 2:
            cur["frames"] = [state] + bad_b + [good[0]] + bad_a[:1] + [good[1]] + bad_a[1:]
        else:
            cur["frames"] = [state] + bad_b + good + bad_a
        await ac.refresh()
        return ac.supports_vertical_swing_angle, ac.supports_horizontal_swing_angle, int(ac.vertical_swing_angle), int(ac.horizontal_swing_angle)

    key = ("propsmix", case["ud"], case["lr"], tuple(bad_b), tuple(bad_a), case["one_frame"])
    try:
        (sv, sh, ud, lr), loop = H.run_virtual(go, net)
    except Exception as e:  # noqa: BLE001
        ctx.count(key, kind="propsmix-raised")
        ctx.violation(f"{type(e).__name__}/propsmix", f"refresh raised {type(e).__name__}: {e} with malformed property frames around a good one", case)
        return
    if not (sv and sh):
        ctx.inconclusive_because("propsmix: the client did not learn the swing-angle capabilities; oracle vacuous")
        return
    if (ud, lr) != (case["ud"], case["lr"]):
        ctx.count(key, kind="propsmix-lost")
        ctx.violation("good-props-not-applied", f"decodable property report(s) in a mixed exchange not applied: angles read ({ud}, {lr}), reported "
                      f"({case['ud']}, {case['lr']})", case)
    else:
        ctx.count(key, kind="mix-good-applied", sample={"bad_before": len(bad_b), "bad_after": len(bad_a), "frames_with_good_reports": len(good)})


def _caps_then_state(ctx, case):
    """get_capabilities() answered with a one-record profile carrying any value; afterwards state reports with unusual values
    answer refresh/apply/toggle/self-clean on the same object."""
    import random
    r = random.Random(case["sseed"])
    net = H.new_net()
    dev = SimDevice(net, version=2, device_id=0x95)
    cur = {"frames": []}
    dev.on_exchange = lambda conn, req, packets, meta: [(0, dev.wrap(conn, f)) for f in cur["frames"]]
    out = []

    def odd_state():
        st = {**acstate.default_state(), "power": r.random() < 0.5, "target_temperature": r.choice([16.0, 17.0, 30.0, 13.0, 43.5]),
              "target_humidity": r.choice([0, 35, 100])}
        ov = {3: r.choice([0, 1, 19, 30, 41, 99, 101, 103, 127]), 2: (r.randrange(8) << 5) | r.randrange(32), 7: r.choice([0, 1, 2, 5, 0xA, 0xF, 0x3C])}
        return acframe.build(acstate.encode_0xC0(st, r.choice([19, 23, 24]), ov), acframe.FT_QUERY)

    async def go(loop):
        for cid, v in case["records"]:
            ac = AC(ip=dev.host, port=dev.port, device_id=dev.device_id)
            val = bytes([v] * 7) if cid == 0x0225 else bytes([v])
            cur["frames"] = [acframe.build(acprops.build_caps([(cid, val)], False), acframe.FT_QUERY)]
            try:
                await ac.get_capabilities()
            except Exception as e:  # noqa: BLE001
                out.append((cid, v, "caps", e))
                continue
            for op in ("refresh", "apply", "toggle", "refresh"):
                cur["frames"] = [odd_state()]
                try:
                    await _do(ac, op)
                    out.append((cid, v, op, None))
                except Exception as e:  # noqa: BLE001
                    out.append((cid, v, op, e))
                    break

    H.run_virtual(go, net)
    for cid, v, op, exc in out:
        ctx.count(("caps-then-state", cid, v, op, case["sseed"]), kind=f"capability-0x{cid:04x}-then-unusual-state" if cid in (0x0210, 0x0214) else "capability-then-unusual-state",
                  sample={"capability": hex(cid), "value": v, "op": op} if cid == 0x0210 else None)
        if exc is not None:
            ctx.violation(f"{type(exc).__name__}/caps-then-state", f"{op} raised {type(exc).__name__}: {exc} after learning capability 0x{cid:04x}={v} "
                          "and receiving a state report with unusual values", {**case, "records": [(cid, v)]})


def run_case(ctx, case):
    if case["kind"] == "seq":
        return _seq(ctx, case)
    if case["kind"] == "propsmix":
        return _propsmix(ctx, case)
    if case["kind"] == "caps-then-state":
        return _caps_then_state(ctx, case)
    if case["kind"] == "mix":
        return _mix(ctx, case)
    if case["kind"] == "capsmix":
        return _capsmix(ctx, case)
    net = H.new_net()
    dev = SimDevice(net, version=2, device_id=0x99)
    cur = {"frames": []}
    dev.on_exchange = lambda conn, req, packets, meta: [(0, dev.wrap(conn, f)) for f in cur["frames"]]
    out = []

    full_caps = acframe.build(acprops.build_caps(c13.CAPS0 + [(0x0043, b"\x01"), (0x0048, b"\x02")], False), acframe.FT_QUERY)

    async def fresh():
        ac = AC(ip=dev.host, port=dev.port, device_id=dev.device_id)
        if case.get("with_caps"):
            cur["frames"] = [full_caps]
            await ac.get_capabilities()
        return ac

    async def go(loop):
        ac = await fresh()
        for it in case["items"]:
            cur["frames"] = [bytes(it["frame"])]
            for op in OPS:
                try:
                    await _do(ac, op)
                    out.append((it, op, None))
                except Exception as e:  # noqa: BLE001
                    out.append((it, op, e))
                    ac = await fresh()
                    cur["frames"] = [bytes(it["frame"])]

    H.run_virtual(go, net)
    for it, op, exc in out:
        frame = bytes(it["frame"])
        fam = it["family"]
        ctx.count((frame, op, bool(case.get("with_caps"))), nontrivial=acframe.outer_ok(frame) if len(frame) >= 2 else True, kind=f"{fam.split('-')[0]}-{op}",
                  sample={"family": fam, "frame": frame, "op": op} if fam.startswith("caps-size") else None)
        if exc is not None:
            ctx.violation(_mechanism(fam, exc), f"{op} raised {type(exc).__name__}: {exc} for a {fam} response", {"kind": "frames", "items": [it]},
                          {"op": op, "frame": frame})


def _mechanism(fam: str, exc) -> str:
    base = fam
    for k in ("state", "caps", "props", "energy", "humidity"):
        if fam.endswith("-" + k):
            base = fam[: -len(k) - 1]
            break
    return f"{type(exc).__name__}/{base}"


async def _do(ac, op):
    if op == "refresh":
        await ac.refresh()
    elif op == "apply":
        # a property-protocol setting is pending, so apply() also sends (and parses the answers to) a property write
        ac.rate_select = AC.RateSelect.GEAR_50 if ac.rate_select != AC.RateSelect.GEAR_50 else AC.RateSelect.OFF
        await ac.apply()
    elif op == "caps":
        await ac.get_capabilities()
    elif op == "toggle":
        await ac.toggle_display()
    else:
        await ac.start_self_clean()


def _mix(ctx, case):
    net = H.new_net()
    dev = SimDevice(net, version=2, device_id=0x98)
    good = acframe.build(acstate.encode_0xC0(case["state"], 23), acframe.FT_QUERY)
    frames = [bytes(f) for f in case["before"]] + [good] + [bytes(f) for f in case["after"]]
    dev.on_exchange = lambda conn, req, packets, meta: [(0, dev.wrap(conn, f)) for f in frames]

    async def go(loop):
        ac = AC(ip=dev.host, port=dev.port, device_id=dev.device_id)
        await ac.refresh()
        return ac.online, H.public_state(ac)

    key = ("mix", tuple(frames))
    try:
        (online, got), loop = H.run_virtual(go, net)
    except Exception as e:  # noqa: BLE001
        ctx.count(key, kind="mix-raised")
        ctx.violation(f"{type(e).__name__}/mix", f"refresh raised {type(e).__name__}: {e} in a mixed good/bad exchange", case)
        return
    exp = acstate.decode_0xC0(good[10:-2])
    diffs = {f: (exp[f], got[f]) for f in ("power", "target_temperature", "fan", "eco", "turbo", "sleep", "target_humidity") if got[f] != exp[f]}
    if int(got["mode"]) != exp["mode_raw"]:
        diffs["mode"] = (exp["mode_raw"], int(got["mode"]))
    if not online or diffs:
        ctx.count(key, kind="mix-good-lost")
        ctx.violation("good-frame-not-applied", f"decodable state frame in a mixed exchange was not applied (online={online}, diffs={diffs})", case)
    else:
        ctx.count(key, kind="mix-good-applied", sample={"n_bad_before": len(case["before"]), "n_bad_after": len(case["after"])})
