"""C18 - discovery: one device per host; bad responders cannot spoil the rest."""
from __future__ import annotations

import itertools

from .. import harness as H
from ..ref import discovery as D
from ..ref import v2
from ..simdev import SimHost

from msmart.discover import Discover

ID = "C18"
LEVEL = "exploration"
RULE = ("a case = up to 4 simulated hosts, each consistently good (well-formed V2/V3 reply) or bad (one class of: random bytes, valid "
        "envelope with a short body, non-text serial/name, name without separators, non-hex type, XML without the expected elements or "
        "attributes, truncated reply, undecryptable payload, marker-only, a V1-style XML announcement whose TCP port accepts and stays silent / answers XML / answers garbage / closes), good hosts of any appliance type whose reply body names their own, another responder's, no or a foreign address, each sending 1..3 copies of its reply (a good host may answer with a V2-style and a V3-style reply of the same identity, in either order, back to back or 0.3 s apart) from source ports "
        "{6445, 20086, random}; the arrival order of all datagrams is a parameter (every distinct interleaving for <= 6 datagrams, "
        "seeded random orders beyond). Oracle: Discover.discover() returns normally, the reported addresses are exactly the good hosts, "
        "one device per address (good hosts may be seconds late; the probe may be addressed to a host name resolving to the first host, then only that host is expected; with the default listening window or timeout in {1,2,3,8} s when all replies arrive inside it), and nothing reaches the event loop's exception handler. distinct = (hosts, classes, arrival order); "
        "non-trivial = at least two datagrams or at least one bad host")
ASSUMPTIONS = ["each host is consistently good or consistently bad within a run (the statement does not say which reply wins otherwise)",
               "V1-style XML replies that carry a port attribute trigger a TCP probe of that host: such a host is unusable and must be omitted like the other bad classes as long as the TCP connection can be made; a refused or never-completing TCP connect is outside the statement's reply classes (DESIGN section 4, observation 3) and is not generated"]
# reach anchors: only entry points this check calls itself or callbacks the event loop needs (robust against internal refactors);
# that the mechanism was really exercised is demanded through MIN_NONTRIVIAL / MIN_HIST outcome counts
ANCHORS = ["discover.py:Discover.discover", "discover.py:_DiscoverProtocol.datagram_received"]
MIN_NONTRIVIAL = {"quick": 2000, "thorough": 40000}
WORKERS = {"quick": 1, "thorough": 16}
EXHAUSTIVE = {t: ["every distinct arrival interleaving of <= 6 datagrams from <= 3 hosts", "every bad-reply class alone and from every subset of hosts"]
              for t in ("quick", "thorough")}

BAD_CLASSES = ["random-bytes", "short-body", "non-text-sn", "non-text-name", "no-separators", "non-hex-type", "xml-no-device",
               "xml-no-port", "truncated", "undecryptable", "marker-only-5a5a", "marker-only-8370", "empty-body", "one-separator",
               "xml-truncated", "lt-garbage", "xml-empty-root", "tiny-body",
               # a well-formed V1-style announcement (the library cannot use such a host: it is omitted); the TCP port it names
               # accepts the connection and then stays silent / answers XML / answers garbage / closes at once
               "xml-v1-tcp-silent", "xml-v1-tcp-xml", "xml-v1-tcp-garbage", "xml-v1-tcp-closes"]
SN = b"000000P0000000Q1F0C9D153F7B40000"


def _good_reply(rng_ints, ip, version, body_ip=None, typ="ac"):
    did, port, suffix = rng_ints
    return D.build_reply(version, did, D.build_payload(body_ip or ip, port, SN, b"net_%s_%04X" % (typ.encode(), suffix)))


class _V1Tcp:
    """TCP endpoint named by a V1-style announcement."""

    def __init__(self, net, ip, port, behaviour):
        self.behaviour = behaviour
        self.connections = 0
        net.listen(ip, port, self)

    def __call__(self, transport):
        self.connections += 1
        return _V1Conn(self, transport)


class _V1Conn:
    def __init__(self, srv, transport):
        self.srv, self.t = srv, transport
        if srv.behaviour == "closes":
            transport.loop.call_soon(transport.peer_fin)

    def on_data(self, data):
        b = self.srv.behaviour
        if b == "xml":
            self.t.loop.call_later(0.05, self.t.peer_send, b"<?xml version='1.0'?><root><body><device sn='1' type='ac'/></body></root>")
        elif b == "garbage":
            self.t.loop.call_later(0.05, self.t.peer_send, bytes(range(200, 256)) + b"<")

    def on_client_close(self):
        pass


def _bad_reply(klass, ip, version, salt):
    def wrap(plain=None, ct=None):
        return D.build_reply(version, 0x1234 + salt, plain or b"", ciphertext=ct)
    if klass == "random-bytes":
        return bytes((salt * 37 + i * 101) & 0xFF for i in range(60 + salt % 40)).replace(b"<", b"(")
    if klass == "short-body":
        return wrap(D.ip_bytes_reversed(ip) + bytes(6 + salt % 20))
    if klass == "empty-body":
        return wrap(b"\x01")
    if klass == "non-text-sn":
        return wrap(D.build_payload(ip, 6444, b"\xff\xfe" + SN[2:], b"net_ac_0001"))
    if klass == "non-text-name":
        return wrap(D.build_payload(ip, 6444, SN, b"net_\xc3\x28_0001"))
    if klass == "no-separators":
        return wrap(D.build_payload(ip, 6444, SN, b"netac0001"))
    if klass == "one-separator":
        return wrap(D.build_payload(ip, 6444, SN, b"net_"))
    if klass == "non-hex-type":
        return wrap(D.build_payload(ip, 6444, SN, b"net_zz_0001"))
    if klass.startswith("xml-v1-tcp"):
        return b"<?xml version='1.0' encoding='utf-8'?><root><body><device sn='%d' port='%d'/></body></root>" % (salt, 6444 + salt % 3)
    if klass == "xml-truncated":
        full = b"<?xml version='1.0' encoding='utf-8'?><root><body><device sn='1' port='6444'/></body></root>"
        return full[: 1 + (salt * 5) % (len(full) - 2)]
    if klass == "lt-garbage":
        return b"<" + bytes((salt * 13 + i * 7) & 0xFF for i in range(20 + salt % 30))
    if klass == "xml-empty-root":
        return b"<a/>"
    if klass == "tiny-body":
        return wrap(bytes(salt % 6))          # 0..5 plaintext bytes, correctly padded
    if klass == "xml-no-device":
        return b"<?xml version='1.0'?><root><body/></root>"
    if klass == "xml-no-port":
        return b"<root><body><device sn='x'/></body></root>"
    if klass == "truncated":
        good = D.build_reply(version, 77, D.build_payload(ip, 6444, SN, b"net_ac_0001"))
        return good[: 20 + (salt * 7) % (len(good) - 21)]
    if klass == "undecryptable":
        return wrap(ct=bytes((salt + i) & 0xFF for i in range(37)))
    if klass == "marker-only-5a5a":
        return b"\x5a\x5a"
    if klass == "marker-only-8370":
        return b"\x83\x70" + bytes(salt % 12)
    raise KeyError(klass)


def _orders(counts, limit):
    """Distinct interleavings of a multiset (host i appears counts[i] times)."""
    seq = [i for i, c in enumerate(counts) for _ in range(c)]
    seen = set()
    for p in itertools.permutations(seq):
        if p not in seen:
            seen.add(p)
            yield list(p)
            if len(seen) >= limit:
                return


def _vary(rng, hosts):
    """Good hosts: appliance type and the address inside the reply body vary (neither makes the host a bad responder)."""
    for h in hosts:
        if h["good"] and rng.random() < 0.5:
            h["body_ip"] = rng.choice([None, "other", "other", "zero", "foreign"])
            h["type"] = rng.choice(["ac", "AC", "a1", "fc", "00", "e2", "ff"])
        if h["good"] and rng.random() < 0.25:
            # a host that is slow to answer: its first reply comes seconds after everybody else's (still inside the window)
            h["delay"] = rng.choice([1.6, 2.8, 4.4])
    return hosts


def _vary2(rng, case):
    """Network-level events that make no host a bad responder."""
    good = [h for h in case["hosts"] if h["good"]]
    if len(good) >= 2 and rng.random() < 0.2:
        # several addresses report the same device id (a unit reachable over two interfaces, clones, factory-reset modules):
        # the statement counts responding addresses
        for h in good:
            h["shared_id"] = True
    if rng.random() < 0.15:
        case["wall_steps"] = [[rng.choice([0.02, 0.3, 0.9, 1.5]), rng.choice([3600.0, -3600.0, 86400.0 * 30, 5.0])]]
    if rng.random() < 0.2:
        # the kernel reports ICMP errors for the probes (port unreachable from some other machine on the subnet): asyncio hands
        # them to the protocol's error_received at these times (seconds after the start of the run)
        case["udp_errors"] = sorted(rng.choice([0.0, 0.03, 0.055, 0.065, 0.08, 0.2, 0.6, 1.7]) for _ in range(rng.randint(1, 3)))


def generate(ctx, rng):
    for key, case in _generate(ctx, rng):
        _vary(rng, case["hosts"])
        # the optional listening window (seconds); used only if every scripted reply arrives well inside it
        case["timeout"] = rng.choice([None, None, 1, 2, 3, 8])
        # the probe is addressed to a host name (resolving to the first host) instead of the broadcast address
        case["named"] = rng.random() < 0.12
        _vary2(rng, case)
        yield key, case


def _generate(ctx, rng):
    quick = ctx.tier == "quick"
    n = 0
    # every bad class alone, and next to good hosts
    for klass in BAD_CLASSES:
        for version in (2, 3):
            for ngood in (0, 1, 2):
                hosts = [{"good": False, "klass": klass, "version": version, "copies": 1 + (n % 3)}] + \
                        [{"good": True, "version": rng.choice([2, 3]), "copies": rng.randint(1, 2)} for _ in range(ngood)]
                counts = [h["copies"] for h in hosts]
                for order in _orders(counts, 40 if quick else 1800):
                    n += 1
                    yield ("bad", n), {"hosts": hosts, "order": order, "salt": rng.randrange(1000)}
    # every subset of hosts bad
    for nh in (2, 3, 4):
        for mask in range(2 ** nh):
            for _ in range(1 if quick else 6):
                hosts = [({"good": False, "klass": rng.choice(BAD_CLASSES), "version": rng.choice([2, 3]), "copies": rng.randint(1, 2)}
                          if mask >> i & 1 else {"good": True, "version": rng.choice([2, 3]), "copies": rng.randint(1, 2)}) for i in range(nh)]
                seq = [i for i, h in enumerate(hosts) for _ in range(h["copies"])]
                rng.shuffle(seq)
                n += 1
                yield ("subset", n), {"hosts": hosts, "order": seq, "salt": rng.randrange(1000)}
    # duplicates only: all interleavings for <= 6 datagrams
    for counts in ([1], [2], [3], [1, 1], [2, 1], [2, 2], [3, 2], [3, 3], [1, 1, 1], [2, 1, 1], [2, 2, 1], [2, 2, 2], [3, 2, 1], [1, 1, 1, 1], [2, 1, 1, 1]):
        for order in _orders(counts, 200 if quick else 30000):
            n += 1
            yield ("dup", n), {"hosts": [{"good": True, "version": 2 + (i + n) % 2, "copies": c} for i, c in enumerate(counts)],
                               "order": order, "salt": rng.randrange(1000)}
    # good hosts that answer with both a V2-style and a V3-style reply (one per probe port), in both orders and timings
    for counts in ([2], [3], [2, 1], [2, 2], [3, 2], [2, 2, 1]):
        for first_version in (2, 3):
            for gap in (0.0, 0.01, 0.3):
                for order in _orders(counts, 30 if quick else 4500):
                    n += 1
                    yield ("dual", n), {"hosts": [{"good": True, "version": first_version if i == 0 else 2 + (i + n) % 2, "copies": c,
                                                   "dual": "always" if i == 0 else False} for i, c in enumerate(counts)],
                                        "order": order, "salt": rng.randrange(1000), "gap": gap}
    for j in range(1500 if quick else 2250000):
        nh = rng.randint(1, 4)
        hosts = [({"good": False, "klass": rng.choice(BAD_CLASSES), "version": rng.choice([2, 3]), "copies": rng.randint(1, 3)}
                  if rng.random() < 0.4 else {"good": True, "version": rng.choice([2, 3]), "copies": rng.randint(1, 3)}) for _ in range(nh)]
        seq = [i for i, h in enumerate(hosts) for _ in range(h["copies"])]
        rng.shuffle(seq)
        yield ("rnd", j), {"hosts": hosts, "order": seq, "salt": rng.randrange(1000)}


def run_case(ctx, case):
    import random
    r = random.Random(case["salt"])
    hosts = case["hosts"]
    net = H.new_net()
    sims = []
    replies = {}
    for i, h in enumerate(hosts):
        ip = f"10.18.0.{i + 1}"
        if h["good"]:
            ident = (r.getrandbits(48), 6444, r.getrandbits(16))
            if h.get("shared_id"):
                ident = (0x0000C18C18C18 & 0xFFFFFFFFFFFF, 6444, ident[2])
            # the address inside the reply body need not be the address the reply comes from (another host's, none, a foreign one)
            body_ip = {None: None, "other": f"10.18.0.{(i + 1) % len(hosts) + 1}", "zero": "0.0.0.0", "foreign": "192.168.77.5"}[h.get("body_ip")]
            replies[i] = _good_reply(ident, ip, h["version"], body_ip, h.get("type", "ac"))
            if h.get("dual"):
                # the same device answers the probes on both ports: a V2-style and a V3-style reply with the same identity
                replies[(i, "alt")] = _good_reply(ident, ip, 5 - h["version"], body_ip, h.get("type", "ac"))
        else:
            salt = case["salt"] + i
            replies[i] = _bad_reply(h["klass"], ip, h["version"], salt)
            if h["klass"].startswith("xml-v1-tcp"):
                _V1Tcp(net, ip, 6444 + salt % 3, h["klass"].rsplit("-", 1)[1])
    per_host = {i: [] for i in range(len(hosts))}
    seen_first = set()
    for k, i in enumerate(case["order"]):
        sport = r.choice([None, 6445, 20086, r.randint(1024, 65535)])
        payload = replies[i]
        if hosts[i].get("dual") and i in seen_first:
            payload = replies[(i, "alt")] if (k % 2 or hosts[i].get("dual") == "always") else replies[i]
        seen_first.add(i)
        gap = case.get("gap", 0.01)
        per_host[i].append((0.05 + gap * k + hosts[i].get("delay", 0.0), sport, payload))
    named = bool(case.get("named"))
    for i, h in enumerate(hosts):
        sims.append(SimHost(net, f"10.18.0.{i + 1}", r.choice([6445, 20086]), per_host[i], names=(["hvac-unit.lan"] if named and i == 0 else ())))

    last = max([d for lst in per_host.values() for d, _, _ in lst] or [0.0])
    tmo = case.get("timeout") if (case.get("timeout") and case["timeout"] > last + 0.25) else None
    if tmo is None and last > 4.7:
        tmo = int(last) + 2          # the default 5 s window would (legitimately) miss the last scripted reply

    kw = {"auto_connect": False}
    if tmo is not None:
        kw["timeout"] = tmo
    if named:
        kw["target"] = "hvac-unit.lan"

    async def go(loop):
        import asyncio
        from ..runtime import vloop
        for at, delta in case.get("wall_steps") or ():
            loop.call_later(at, vloop.wall_step, delta)          # the system clock is corrected while the discovery is listening
        for t in case.get("udp_errors") or ():
            def icmp():
                for tr in getattr(net, "udp_transports", []):
                    if not tr.is_closing():
                        tr.protocol.error_received(ConnectionRefusedError(111, "Connection refused"))
                        ctx.bump("icmp-errors-delivered-to-the-discovery-socket")
            loop.call_later(t, icmp)
        return await Discover.discover(**kw)

    key = ("c18", tmo, named, repr(case.get("wall_steps")), tuple(case.get("udp_errors") or ()), tuple(bool(h.get("shared_id")) for h in hosts), tuple(h.get("delay") for h in hosts), tuple((h["good"], h.get("klass"), h["version"], h["copies"], h.get("dual"), h.get("body_ip"), h.get("type")) for h in hosts), tuple(case["order"]), case.get("gap"))
    nontrivial = len(case["order"]) >= 2 or any(not h["good"] for h in hosts)
    unhandled = []
    try:
        devs, loop = H.run_virtual(go, net)
        unhandled = loop.unhandled
    except Exception as e:  # noqa: BLE001
        ctx.count(key, nontrivial=nontrivial, kind="discover-raised")
        bad = sorted({h["klass"] for h in hosts if not h["good"]})
        ctx.violation(f"discover-aborted/{type(e).__name__}", f"discover() raised {type(e).__name__}: {e} with bad responders {bad}", case)
        return
    ctx.count(key, nontrivial=nontrivial, kind=f"discover-{len(hosts)}hosts",
              sample={"hosts": hosts, "order": case["order"]} if len(hosts) >= 3 else None)
    good_ips = {f"10.18.0.{i + 1}" for i, h in enumerate(hosts) if h["good"] and (not named or i == 0)}
    if any(d is None for d in devs):
        ctx.violation("none-in-result", "discover() returned a None entry for an omitted host", case)
    got_ips = [d.ip for d in devs if d is not None]
    if len(got_ips) != len(set(got_ips)):
        ctx.violation("duplicate-device", f"addresses reported more than once: {sorted(got_ips)}", case)
    if set(got_ips) != good_ips:
        missing = sorted(good_ips - set(got_ips))
        extra = sorted(set(got_ips) - good_ips)
        ctx.violation("good-host-missing" if missing else "bad-host-reported", f"reported {sorted(got_ips)}, good hosts {sorted(good_ips)}", case,
                      {"missing": missing, "extra": extra})
    if unhandled and any(h.get("klass") == "xml-v1-tcp-garbage" for h in hosts):
        # the V1 info connection logs non-text bytes through the loop's exception handler (its data_received decodes them for a
        # debug message); the discovery result is unaffected, which is all the statement asks - observed, not judged
        tcp = [u for u in unhandled if "data_received" in str(u.get("message"))]
        if tcp:
            ctx.skip("exception inside the V1 info connection's data_received reached the loop handler (result unaffected; not judged)")
        unhandled = [u for u in unhandled if u not in tcp]
    if unhandled:
        ctx.violation(f"loop-exception/{unhandled[0]['exc_class']}", f"exception reached the event loop handler: {unhandled[0]}", case)
