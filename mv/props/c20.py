"""C20 - `msmart-ng control` applies the documented meaning of each setting=value pair; invalid input is rejected before any I/O."""
from __future__ import annotations

import asyncio
import itertools
import sys

from .. import gen
from .. import harness as H
from ..ref import acprops, acstate
from ..runtime import vloop
from ..simdev import ACModel, SimDevice

import msmart.cli as cli
from msmart.device import AirConditioner as AC

ID = "C20"
DEBUG_LOGGING_EVERY = 0      # the CLI configures logging itself (cases pass -d instead)
LEVEL = "exploration"
RULE = ("a case = one `msmart-ng control <host> [--id --token --key] setting=value...` command line run in-process through msmart.cli.main() "
        "(sys.argv patched, SystemExit caught, event-loop policy handing out the virtual loop bound to a simulated V2 or V3 device at "
        "host:6444 whose reported state is random). Valid lines: every writable setting; enumerations by every member name in lower / "
        "UPPER / Title case and by every member value, raw integers for fan_speed; numbers as int and float at boundaries; booleans "
        "True/False/1/0 in three letter cases; display_on both ways against both device display states; pairs of settings; a set of lines run after importing msmart afresh (the CLI's own process has no earlier use of anything); --capabilities against units with restricted capability profiles that report values outside the profile. Oracle: exit "
        "status 0 and final simulated-device state (control body / property store / display) == reported state overlaid with an "
        "independent README-derived interpretation of the pairs. Invalid lines (unknown, read-only, private, method names, ill-typed "
        "values incl. nan/inf/None/containers/complex where a number is expected, malformed pairs, valid-then-invalid): non-zero exit (an uncaught exception counts as non-zero, recorded as 'crash') and "
        "zero connections / bytes on the simulated network. distinct = argv; all non-trivial")
ASSUMPTIONS = ["only documented spellings are judged: member names and values of the enumerations, int/float literals, True/False/1/0 in any letter case",
               "an uncaught exception in cli.main() is a non-zero exit", "README.md lines 120-133 are the specification of the value syntax",
               "restricted-profile cases use units that may report a fan speed their capabilities exclude; on the unchanged tree that exposes the known "
               "finding fan-reset-to-auto/display-toggle-after-capabilities (known_findings.json), keyed by mechanism so that the same symptom on any other path is still reported"]
# reach anchors: only entry points this check calls itself or callbacks the event loop needs (robust against internal refactors);
# that the mechanism was really exercised is demanded through MIN_NONTRIVIAL / MIN_HIST outcome counts
ANCHORS = ["cli.py:main", "device.py:AirConditioner.apply", "device.py:AirConditioner.refresh"]
MIN_NONTRIVIAL = {"quick": 900, "thorough": 20000}
MIN_HIST = {"quick": {"valid-ok": 600, "invalid-rejected-cleanly": 120}, "thorough": {"valid-ok": 15000, "invalid-rejected-cleanly": 1500}}
WORKERS = {"quick": 1, "thorough": 16}
EXHAUSTIVE = {t: ["every writable setting", "every enumeration member by name in 3 letter cases and by value", "boolean spellings True/False/1/0 x 3 cases x every boolean setting",
                  "display toggle 2 x 2", "invalid catalogue"] for t in ("quick", "thorough")}

HOST = "10.20.0.7"
ENUMS = {
    "operational_mode": AC.OperationalMode, "fan_speed": AC.FanSpeed, "swing_mode": AC.SwingMode,
    "horizontal_swing_angle": AC.SwingAngle, "vertical_swing_angle": AC.SwingAngle, "rate_select": AC.RateSelect, "aux_mode": AC.AuxHeatMode,
}
BOOLS = ["beep", "power_state", "fahrenheit", "eco", "turbo", "freeze_protection", "sleep", "follow_me", "purifier", "ieco",
         "breeze_away", "breeze_mild", "breezeless", "use_alternate_energy_format", "enable_energy_usage_requests",
         "eco_mode", "turbo_mode", "sleep_mode", "freeze_protection_mode"]
NUMS = {"target_temperature": ["17", "17.0", "20.5", "30", "30.0", "16.5", "13", "43", "43.5", "25.5"],
        "target_humidity": ["0", "35", "40", "55", "100", "55.0", "70.0"]}
BOOL_SPELLINGS = [("True", True), ("true", True), ("TRUE", True), ("False", False), ("false", False), ("FALSE", False), ("1", True), ("0", False)]
# README-derived target of each setting: (device state field | ('prop', id) | None)
FIELD = {"power_state": "power", "fahrenheit": "fahrenheit", "eco": "eco", "eco_mode": "eco", "turbo": "turbo", "turbo_mode": "turbo",
         "freeze_protection": "freeze_protection", "freeze_protection_mode": "freeze_protection", "sleep": "sleep", "sleep_mode": "sleep",
         "follow_me": "follow_me", "purifier": "purifier", "target_temperature": "target_temperature", "target_humidity": "target_humidity",
         "operational_mode": "mode", "fan_speed": "fan", "swing_mode": "swing", "aux_mode": "aux"}

INVALID = [
    ["bogus=1"], ["power=1"], ["mode=cool"], ["temperature=20"], ["online=True"], ["supported=True"], ["indoor_temperature=20"],
    ["outdoor_temperature=1"], ["filter_alert=True"], ["supported_operation_modes=1"], ["min_target_temperature=10"], ["supports_eco=True"],
    ["self_clean_active=True"], ["indoor_humidity=50"], ["total_energy_usage=1"], ["ip=1.2.3.4"], ["id=5"], ["token=00"], ["type=1"],
    ["_power_state=True"], ["_lan=1"], ["__class__=int"], ["refresh=1"], ["apply=1"], ["toggle_display=1"], ["to_dict=1"], ["FanSpeed=1"],
    ["power_state=maybe"], ["power_state=yesno"], ["power_state=tru"], ["eco=onn"], ["beep=loud"],
    ["target_temperature=warm"], ["target_temperature=twenty"], ["target_humidity=damp"],
    ["operational_mode=frozen"], ["operational_mode=99"], ["operational_mode=0"], ["swing_mode=sideways"], ["swing_mode=7"], ["fan_speed=fast"],
    ["aux_mode=9"], ["rate_select=33"], ["operational_mode=2.5"], ["swing_mode=3.7"], ["aux_mode=1.2"], ["rate_select=50.5"], ["horizontal_swing_angle=25.5"],
    ["vertical_swing_angle=1.9"], ["operational_mode=4.999"], ["swing_mode=-0.5"], ["horizontal_swing_angle=37"], ["vertical_swing_angle=up"],
    ["target_temperature=nan"], ["target_temperature=inf"], ["target_temperature=-inf"], ["target_temperature=Infinity"], ["target_temperature=NaN"],
    ["target_humidity=nan"], ["target_humidity=inf"], ["target_temperature=None"], ["target_temperature=[20]"], ["target_temperature=(20,)"],
    ["target_temperature={}"], ["target_temperature=20+1j"], ["target_temperature=..."], ["target_temperature=20.5.1"], ["target_temperature=--5"],
    ["target_humidity=40,50"], ["power_state=[]x"], ["display_on=nan", "target_temperature=21"],
    ["display_on=0", "target_temperature=inf"], ["display_on=1", "target_temperature=nan"], ["eco_mode=perhaps"], ["turbo_mode=on!"],
    ["power_state"], ["=1"], ["power_state=True=False"],
    ["power_state=True", "bogus=1"], ["target_temperature=20", "operational_mode=frozen"], ["eco=1", "online=True"], ["display_on=True", "nope=1"],
    ["fan_speed=low", "swing_mode=diagonal"], ["power_state=1", "target_temperature=hot"], ["display_on=maybe"],
]


def _spellings(member_name):
    return [member_name.lower(), member_name.upper(), member_name.title()]


def generate(ctx, rng):
    quick = ctx.tier == "quick"
    n = 0

    def case(pairs, **kw):
        nonlocal n
        n += 1
        c = {"kind": "valid", "pairs": pairs, "state": gen.random_state(rng), "display": rng.random() < 0.5, "v3": rng.random() < 0.25,
             "caps": rng.random() < 0.2, "dseed": rng.getrandbits(32), "auto": False}
        if not c["v3"] and rng.random() < 0.15:
            c["auto"] = True      # --auto: discovery of the (V2) device instead of manual construction
        c.update(kw)
        return ("v", n), c

    for rep in range(1 if quick else 6):
        for name, enum in ENUMS.items():
            for m in enum.list():
                for sp in _spellings(m.name):
                    yield case([[name, sp, int(m)]])
                yield case([[name, str(int(m)), int(m)]])
            # alias member names (every enum has DEFAULT)
            for alias, m in enum.__members__.items():
                if alias != m.name:
                    for sp in _spellings(alias):
                        yield case([[name, sp, int(m)]])
    for v in [1, 19, 21, 33, 50, 55, 79, 99, 101]:
        yield case([["fan_speed", str(v), v]])
    # the command's first use of a setting in a brand-new process (the CLI is a process of its own): msmart is imported afresh
    for name in BOOLS + ["target_temperature", "operational_mode"]:
        for sp, val in (("1", True), ("False", False)) if name in BOOLS else ((("21.5", 21.5),) if name == "target_temperature" else (("heat", 4),)):
            yield case([[name, sp, val]], fresh=True)
    yield case([["operational_mode", "cool", 2], ["target_temperature", "20.5", 20.5], ["fan_speed", "100", 100], ["display_on", "True", True], ["beep", "0", False]], fresh=True)
    # --capabilities against units with a restricted capability profile (no custom fan speeds, few modes / presets) that report
    # values outside the profile: settings not on the command line must stay as reported
    for j in range(40 if quick else 15000):
        pairs = rng.sample([["power_state", "1", True], ["power_state", "0", False], ["eco", "1", True], ["sleep", "True", True], ["turbo", "0", False],
                            ["target_temperature", "24.5", 24.5], ["target_humidity", "55", 55.0], ["purifier", "1", True], ["follow_me", "0", False],
                            ["fahrenheit", "1", True], ["display_on", "1", True], ["display_on", "0", False], ["beep", "1", True]], rng.randint(1, 2))
        if len({p[0] for p in pairs}) == len(pairs):
            yield case(pairs, caps=True, caps_profile=["presets-only", "minimal"][j % 2], v3=j % 4 == 0, auto=False)
    for name in BOOLS:
        for sp, val in BOOL_SPELLINGS:
            yield case([[name, sp, val]])
    for name, vals in NUMS.items():
        for sp in vals:
            yield case([[name, sp, float(sp)]])
    for want in (True, False):
        for have in (True, False):
            for sp in [s for s, v in BOOL_SPELLINGS if v == want]:
                yield case([["display_on", sp, want]], display=have)
                yield case([["display_on", sp, want], ["power_state", "1", True]], display=have)
    # README example
    yield case([["operational_mode", "cool", 2], ["target_temperature", "20.5", 20.5], ["fan_speed", "100", 100], ["display_on", "True", True], ["beep", "0", False]])
    # pairs
    singles = []
    for name, enum in ENUMS.items():
        for m in enum.list():
            singles.append([name, rng.choice(_spellings(m.name) + [str(int(m))]), int(m)])
    for name in BOOLS + ["display_on"]:
        for sp, val in BOOL_SPELLINGS[::3]:
            singles.append([name, sp, val])
    for name, vals in NUMS.items():
        for sp in vals[::2]:
            singles.append([name, sp, float(sp)])
    pairs = [(a, b) for a, b in itertools.combinations(singles, 2) if a[0] != b[0]]
    rng.shuffle(pairs)
    for a, b in pairs[: (350 if quick else 200000)]:
        yield case([a, b])
    for _ in range(60 if quick else 400000):
        k = rng.randint(2, 6)
        chosen, names = [], set()
        for s in rng.sample(singles, 30):
            if s[0] not in names:
                names.add(s[0])
                chosen.append(s)
            if len(chosen) == k:
                break
        yield case(chosen)
    # invalid catalogue
    for i, inv in enumerate(INVALID):
        for v3, auto in ((False, False), (True, False), (False, True)):
            n += 1
            yield ("i", n), {"kind": "invalid", "args": inv, "state": gen.random_state(rng), "display": True, "v3": v3, "caps": False, "dseed": i,
                             "auto": auto}
    for _ in range(40 if quick else 20000):
        good = rng.sample(singles, rng.randint(0, 2))
        bad = rng.choice([x for x in INVALID if len(x) == 1])
        args = [f"{g[0]}={g[1]}" for g in good]
        args.insert(rng.randint(0, len(args)), bad[0])
        n += 1
        yield ("i", n), {"kind": "invalid", "args": args, "state": gen.random_state(rng), "display": True, "v3": False, "caps": False, "dseed": n}


class _Policy(asyncio.DefaultEventLoopPolicy):
    net = None
    loops = []

    def new_event_loop(self):
        loop = vloop.VLoop(_Policy.net)
        vloop.set_active(loop)
        _Policy.loops.append(loop)
        return loop


class _FreshProcess:
    """Emulates the start of a new interpreter as far as msmart is concerned: every msmart module is imported afresh (new
    class objects, new function objects, new module-level state); the harness' clock and entropy are installed again."""

    def __enter__(self):
        self.saved = {k: v for k, v in sys.modules.items() if k == "msmart" or k.startswith("msmart.")}
        for k in self.saved:
            del sys.modules[k]
        import msmart.cli as fresh_cli
        import msmart.lan
        import msmart.cloud  # noqa: F401
        vloop.install_clock()
        msmart.lan.get_random_bytes = H._seeded_random_bytes
        return fresh_cli

    def __exit__(self, *a):
        for k in [k for k in sys.modules if k == "msmart" or k.startswith("msmart.")]:
            del sys.modules[k]
        sys.modules.update(self.saved)
        vloop.install_clock()
        return False


def _run_cli(argv, net, fresh=False):
    if fresh:
        with _FreshProcess() as fresh_cli:
            return _run_cli_with(fresh_cli, argv, net)
    return _run_cli_with(cli, argv, net)


def _run_cli_with(cli, argv, net):
    _Policy.net = net
    _Policy.loops = []
    old_policy = asyncio.get_event_loop_policy()
    old_argv = sys.argv
    asyncio.set_event_loop_policy(_Policy())
    sys.argv = ["msmart-ng"] + argv
    sys.modules["msmart.discover"].Discover._lock = None
    status, crash = None, None
    import contextlib
    dbg = H.debug_logging() if ("-d" in argv or "--debug" in argv) else contextlib.nullcontext()
    try:
        try:
            with dbg:
                cli.main()
            status = 0
        except SystemExit as e:
            status = e.code if isinstance(e.code, int) else (0 if e.code is None else 1)
        except (KeyboardInterrupt,):
            raise
        except BaseException as e:  # noqa: BLE001 - an uncaught exception is a non-zero exit ("crash")
            status, crash = 1, e
    finally:
        sys.argv = old_argv
        asyncio.set_event_loop_policy(old_policy)
        for lp in _Policy.loops:
            if not lp.is_closed():
                try:
                    lp.close()
                except Exception:  # noqa: BLE001
                    pass
    return status, crash


def _mkdev(case):
    net = H.new_net()
    st = {**acstate.default_state(), **{k: v for k, v in case["state"].items() if k in acstate.FIELDS}, "display_on": case["display"]}
    model = ACModel(st)
    restricted = {"presets-only": [(0x0210, b"\x05"), (0x0214, b"\x02"), (0x0215, b"\x02"), (0x0212, b"\x00"), (0x021A, b"\x02"), (0x0213, b"\x00"),
                                   (0x0225, bytes([34, 60, 34, 60, 34, 60, 0]))],
                  "minimal": [(0x0210, b"\x07"), (0x0214, b"\x00")]}
    model.caps_pages = [restricted[case["caps_profile"]]] if case.get("caps_profile") else [[(0x0214, b"\x01"), (0x0215, b"\x01"), (0x0210, b"\x01"), (0x0212, b"\x01"), (0x021A, b"\x01"), (0x0213, b"\x01"),
                         (0x021F, b"\x02"), (0x0219, b"\x01"), (0x0225, bytes([26, 87, 26, 87, 26, 87, 1])), (0x0043, b"\x01"), (0x0048, b"\x02"),
                         (0x00E3, b"\x01"), (0x0009, b"\x01"), (0x000A, b"\x01"), (0x0224, b"\x01")]]
    model.props = {0x0043: b"\x01", 0x0048: b"\x64", 0x00E3: b"\x00\x00", 0x0009: b"\x00", 0x000A: b"\x00", 0x0042: b"\x01", 0x0018: b"\x00"}
    token, key = bytes(range(64)), bytes(range(32))
    auto = bool(case.get("auto"))
    dev = SimDevice(net, host=HOST, port=(7001 if auto else 6444), version=3 if case["v3"] else 2, token=token, key=key,
                    device_id=(77 if case["v3"] else (0x5A17 if auto else 0)), ac=model, seed=case["dseed"])
    argv = ["control", HOST]
    if auto:
        from ..ref import discovery as D
        from ..simdev import SimHost
        reply = D.build_reply(2, 0x5A17, D.build_payload(HOST, 7001, b"000000P0000000Q1F0C9D153F7B40000", b"net_ac_F7B4"))
        SimHost(net, HOST, 6445, [(0.05, None, reply)])
        argv += ["--auto"]
    if case["v3"]:
        argv += ["--id", "77", "--token", token.hex(), "--key", key.hex()]
    if case.get("caps"):
        argv += ["--capabilities"]
    if case.get("dseed", 0) % 5 == 0:
        argv += ["-d"]              # debug logging requested on the command line
    return net, dev, model, argv, dict(st), dict(model.props)


def run_case(ctx, case):
    net, dev, model, argv, st0, props0 = _mkdev(case)
    if case["kind"] == "invalid":
        args = list(case["args"])
        status, crash = _run_cli(argv + args, net)
        key = ("invalid", tuple(args), case["v3"])
        touched = net.connect_attempts or net.bytes_to_devices or net.datagrams_out
        if status == 0:
            ctx.count(key, kind="invalid-accepted")
            ctx.violation("invalid-input-exit-0", f"invalid command line {args} exited with status 0", case)
        elif touched:
            ctx.count(key, kind="invalid-io")
            ctx.violation("io-before-rejection", f"invalid command line {args} was rejected (status {status}) but {net.connect_attempts} connection(s) / "
                          f"{net.bytes_to_devices} byte(s) had already gone to the device", case)
        else:
            ctx.count(key, kind="invalid-rejected-cleanly", sample={"args": args, "status": status, "crash": type(crash).__name__ if crash else None})
            if crash is not None:
                ctx.bump("invalid-rejected-by-crash(" + type(crash).__name__ + ")")
        return
    pairs = case["pairs"]
    args = [f"{n}={sp}" for n, sp, _ in pairs]
    status, crash = _run_cli(argv + args, net, fresh=bool(case.get("fresh")))
    if case.get("fresh"):
        ctx.bump("valid-lines-run-in-a-fresh-import-of-msmart")
    if case.get("caps_profile"):
        ctx.bump("valid-lines-with-restricted-capability-profile")
    key = ("valid", tuple(args), case["v3"], case.get("auto"), case["display"], case.get("caps"), case.get("caps_profile"), bool(case.get("fresh")),
           gen.state_key({**gen.base_state(), **case["state"]}))
    if status != 0:
        ctx.count(key, kind="valid-rejected")
        ctx.violation("documented-spelling-rejected/" + pairs[0][0], f"documented command line {args} exited with status {status}"
                      + (f" ({type(crash).__name__}: {crash})" if crash else ""), case)
        return
    # ---- expected device state
    exp = dict(st0)
    exp_props = dict(props0)
    exp_beep = False
    any_apply = False
    breeze = None
    for name, sp, val in pairs:
        if name == "display_on":
            exp["display_on"] = bool(val)
            continue
        any_apply = True
        if name == "beep":
            exp_beep = bool(val)
        elif name in FIELD:
            f = FIELD[name]
            exp[f] = (float(val) if f == "target_temperature" else int(val) if f in ("mode", "fan", "swing", "aux", "target_humidity") else bool(val))
        elif name == "rate_select":
            exp_props[0x0048] = bytes([int(val)])
        elif name == "horizontal_swing_angle":
            exp_props[0x000A] = bytes([int(val)])
        elif name == "vertical_swing_angle":
            exp_props[0x0009] = bytes([int(val)])
        elif name == "ieco":
            exp_props[0x00E3] = bytes([1, 1 if val else 0])
        elif name in ("breeze_away", "breeze_mild", "breezeless"):
            breeze = (name, bool(val)) if breeze is None else "multiple"
    got = dict(model.state)
    diffs = {f: (exp[f], got[f]) for f in list(acstate.FIELDS) + ["display_on"] if got[f] != exp[f]}
    bad = False
    toggled = any(n == "display_on" for n, _, _ in pairs) and st0["display_on"] != exp["display_on"]
    if (set(diffs) == {"fan"} and case.get("caps_profile") and toggled and diffs["fan"][1] == 102
            and diffs["fan"][0] not in (20, 40, 60, 80, 100, 102)):
        # known finding (known_findings.json): --capabilities + an effective display toggle on a unit without custom fan speeds
        bad = True
        ctx.violation("fan-reset-to-auto/display-toggle-after-capabilities",
                      f"after `control --capabilities {' '.join(args)}` the fan speed the unit reported ({diffs['fan'][0]}) was written back as AUTO (102)", case)
    elif diffs:
        bad = True
        f0 = sorted(diffs)[0]
        ctx.violation(f"device-state/{f0}", f"after `control {' '.join(args)}` the device differs from reported-state+settings: {diffs}", case)
    if any_apply:
        if not model.controls:
            requested_beep = any(n == "beep" for n, _, _ in pairs)
            requested_props = any(n in ("rate_select", "horizontal_swing_angle", "vertical_swing_angle", "ieco", "breeze_away", "breeze_mild", "breezeless")
                                  for n, _, _ in pairs)
            if diffs or requested_beep or requested_props:
                bad = True
                ctx.violation("nothing-applied", f"`control {' '.join(args)}` exited 0 but no control command reached the device", case)
            else:
                # the unit already reported every requested value and ends up in exactly the expected state: whether a control
                # command is sent for that is the tool's business
                ctx.bump("no-control-command-sent: unit already held every requested value (not judged)")
        else:
            b = acstate.decode_0x40(model.controls[-1])
            if b["beep"] != exp_beep:
                bad = True
                ctx.violation("device-state/beep", f"beep flag in the control command is {b['beep']}, expected {exp_beep}", case)
    elif model.controls:
        bad = True
        ctx.violation("unexpected-apply", "only display_on was given but a control command was sent", case)
    # property-protocol settings
    caps_known = bool(case.get("caps"))
    for pid, want in exp_props.items():
        if pid in (0x0043, 0x0042, 0x0018):
            continue
        if model.props.get(pid) != want:
            bad = True
            ctx.violation(f"device-property/0x{pid:04x}", f"property 0x{pid:04X} is {model.props.get(pid)!r}, expected {want!r} after {args}", case)
    if breeze not in (None, "multiple"):
        name, val = breeze
        mode = {"breeze_away": 2, "breeze_mild": 3, "breezeless": 4}[name] if val else 1
        if caps_known or name == "breeze_mild":
            ok = model.props.get(0x0043) == bytes([mode])
        elif name == "breeze_away":
            ok = model.props.get(0x0042) == (b"\x02" if val else b"\x01")
        else:
            ok = model.props.get(0x0018) == (b"\x01" if val else b"\x00")
        if not ok:
            bad = True
            ctx.violation(f"device-property/{name}", f"{name}={val} not reflected in the device's property store {dict((hex(k), v.hex()) for k, v in model.props.items())}", case)
    toggles = sum(1 for c in model.commands if c[0] == "toggle_display")
    want_toggles = 1 if any(n == "display_on" for n, _, _ in pairs) and st0["display_on"] != exp["display_on"] else 0
    if toggles != want_toggles:
        bad = True
        ctx.violation("display-toggle-count", f"{toggles} display toggles sent, expected {want_toggles} (device display was {st0['display_on']})", case)
    if model.rejected:
        bad = True
        ctx.violation("device-rejects-frame", f"device rejected a frame: {model.rejected[0][1]}", case)
    ctx.count(key, kind="valid-bad" if bad else "valid-ok", sample={"argv": argv[2:] + args, "reported_display": st0["display_on"]} if len(pairs) > 1 else None)
