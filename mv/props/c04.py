"""C04 - V3 stream reassembly is segmentation-independent (delivered-prefix oracle)."""
from __future__ import annotations

import asyncio
import itertools

from .. import harness as H
from ..ref import v2, v3
from ..simdev import SimDevice

from msmart.lan import LAN, _LanProtocolV3

ID = "C04"
LEVEL = "exploration"
RULE = ("a stream = optional marker-free garbage prefix + 1..4 V3 packets (handshake-response and encrypted-response types, payload "
        "sizes incl. 0/1/13..16/30.., payloads containing 83 70 and ending in 83; plus every payload size 0..1300 followed by a second packet); a case = (stream, segmentation). Protocol driver: a real "
        "_LanProtocolV3 is fed segment by segment through data_received and drained with read(timeout=0) after every segment; the "
        "cumulative delivered list must equal exactly the payloads of the packets whose last byte has arrived (exactly-once, order, "
        "completeness, promptness). Timed driver: the segments of 1..3 streams arrive at chosen virtual instants (gaps 0, 1 ms .. 7 s, 45 s) while a reader task "
        "loops over read(timeout in {0.5, 2, 5}) (reads time out in the gaps and are re-issued); every packet must be returned once, in order, at the instant its last byte arrived. Full-stack driver: the simulated V3 device writes its reply stream in chosen segments at chosen "
        "virtual times; frames returned by consecutive LAN.send calls must equal the frames sent and the first send must return at the "
        "virtual instant the last byte of the first packet arrived. distinct = (stream id, cut positions); non-trivial = at least one cut "
        "or more than one packet or a garbage prefix")
ASSUMPTIONS = ["read(timeout=0) and _local_key are the names pinned by the repository's own tests",
               "garbage prefixes contain no 83 70 pair (statement: marker-free)"]
ANCHORS = ["lan.py:_LanProtocolV3.data_received", "lan.py:_LanProtocolV3.read", "lan.py:LAN.send"]
MIN_NONTRIVIAL = {"quick": 100000, "thorough": 3000000}
MIN_HIST = {"quick": {"fullstack-ok": 150}, "thorough": {"fullstack-ok": 3000}}
WORKERS = {"quick": 1, "thorough": 16}
EXHAUSTIVE = {"quick": ["all segmentations with <= 2 cut points of every generated stream (streams <= ~170 bytes)"],
              "thorough": ["all segmentations with <= 3 cut points of every generated stream <= 200 bytes",
                           "all segmentations with <= 2 cut points of the longer streams"]}

KEY = bytes(range(32, 64))


def _mk_packet(spec, idx):
    """spec = (ptype, payload bytes) -> (wire bytes, expected result of read())."""
    ptype, payload = spec
    if ptype == 1:
        return v3.build_handshake_response(payload, idx), bytes(payload)
    return v3.build_encrypted(KEY, payload, idx, v3.T_ENC_RESP), bytes(payload)


def _payload(rng, n, style):
    if style == "marker":
        b = bytearray(rng.randbytes(n))
        if n >= 2:
            p = rng.randrange(n - 1)
            b[p:p + 2] = b"\x83\x70"
        if n >= 1 and rng.random() < 0.5:
            b[-1] = 0x83
        return bytes(b)
    if style == "allmarker":
        return (b"\x83\x70" * n)[:n]
    return rng.randbytes(n)


def _garbage(rng, n, trailing83):
    b = bytearray()
    while len(b) < n:
        c = rng.randrange(256)
        if b and b[-1] == 0x83 and c == 0x70:
            continue
        b.append(c)
    if n and trailing83:
        b[-1] = 0x83
        if len(b) >= 2 and b[-2] == 0x83:
            pass
    return bytes(b)


def _streams(rng, tier):
    """Yield stream specs: dict(garbage, packets=[(ptype, payload)])."""
    sizes = [0, 1, 2, 13, 14, 15, 16, 30, 31, 46]
    out = []
    sid = 0
    # single packets of each size and style, both types
    for n in sizes:
        for ptype in (1, 3):
            for style in ("rand", "marker"):
                out.append({"g": b"", "p": [(ptype, _payload(rng, n, style))]})
    # multi packet streams
    for k in (2, 3, 4):
        for _ in range(6 if tier == "quick" else 14):
            pk = [(rng.choice((1, 3)), _payload(rng, rng.choice(sizes[:8]), rng.choice(("rand", "marker", "allmarker")))) for _ in range(k)]
            out.append({"g": b"", "p": pk})
    # garbage prefixes
    for glen in (1, 2, 5, 17, 40):
        for t83 in (False, True):
            pk = [(rng.choice((1, 3)), _payload(rng, rng.choice(sizes[:7]), "marker")) for _ in range(rng.choice((1, 2)))]
            out.append({"g": _garbage(rng, glen, t83), "p": pk})
    for s in out:
        s["sid"] = sid
        sid += 1
    return out


def generate(ctx, rng):
    quick = ctx.tier == "quick"
    streams = _streams(rng, ctx.tier)
    for s in streams:
        wire = s["g"] + b"".join(_mk_packet(p, i)[0] for i, p in enumerate(s["p"]))
        n = len(wire)
        maxcuts = 2 if quick else (3 if n <= 200 else 2)
        if quick and n > 175:
            maxcuts = 1
        # exhaustive families are chunked by first cut so shards share the work
        yield ("ex", s["sid"], 0), {"kind": "exhaustive", "stream": s, "first": None, "maxcuts": maxcuts}
        for first in range(1, n):
            yield ("ex", s["sid"], first), {"kind": "exhaustive", "stream": s, "first": first, "maxcuts": maxcuts}
        # random many-cut segmentations incl. byte-by-byte
        yield ("bytewise", s["sid"]), {"kind": "cuts", "stream": s, "cuts": list(range(1, n))}
        for j in range(6 if quick else 40):
            k = rng.randint(3, max(3, n - 1))
            cuts = sorted(rng.sample(range(1, n), min(k, n - 1)))
            yield ("rnd", s["sid"], j), {"kind": "cuts", "stream": s, "cuts": cuts}
    # every payload size up to 1300 bytes (every value of the 16-bit size field's low byte with several high bytes), each
    # followed by a second small packet, delivered whole and with one cut
    sid = 10000
    for n in range(0, 1301):
        for ptype in ((1, 3) if (quick and n % 4 == 0) or not quick else (1,)):
            sid += 1
            s = {"g": b"", "p": [(ptype, rng.randbytes(n)), (3, rng.randbytes(5))], "sid": sid}
            total = len(_mk_packet(s["p"][0], 0)[0]) + len(_mk_packet(s["p"][1], 1)[0])
            yield ("size", n, ptype), {"kind": "sizes", "stream": s, "cutsets": [[], [rng.randint(1, total - 1)], [total - rng.randint(1, 40)]]}
    # several streams in a row through ONE protocol instance (state carried over between streams)
    for j in range(250 if quick else 8000):
        picks = [rng.choice(streams) for _ in range(rng.randint(2, 4))]
        segs = []
        for s in picks:
            n = len(s["g"]) + sum(len(_mk_packet(p, i)[0]) for i, p in enumerate(s["p"]))
            k = rng.choice([0, 1, 2, 5, n - 1])
            segs.append(sorted(rng.sample(range(1, n), min(k, n - 1))) if n > 1 else [])
        yield ("chain", j), {"kind": "chain", "streams": picks, "cuts": segs}
    # the same with real (virtual) time between the segments and a reader whose reads time out in the gaps
    for j in range(400 if quick else 12000):
        picks = [rng.choice(streams) for _ in range(rng.randint(1, 3))]
        segs = []
        for s in picks:
            n = len(s["g"]) + sum(len(_mk_packet(p, i)[0]) for i, p in enumerate(s["p"]))
            k = rng.choice([0, 1, 1, 2, 3, 6])
            segs.append(sorted(rng.sample(range(1, n), min(k, n - 1))) if n > 1 else [])
        yield ("timed", j), {"kind": "timed", "streams": picks, "cuts": segs, "tseed": rng.getrandbits(32),
                             "read_timeout": rng.choice([0.5, 2, 2, 5])}
    # full-stack, a packet that straddles two exchanges: its head arrives with the reply to one request, its tail only after the
    # next request has been sent
    for j in range(80 if quick else 3000):
        yield ("straddle", j), {"kind": "straddle", "frames": [rng.randbytes(rng.choice([1, 5, 14, 20, 33])) for _ in range(3)],
                                "cut": rng.choice([1, 2, 5, 6, 7, 8, 40, 100, -1, -32]), "cseed": rng.getrandbits(32)}
    # full-stack
    nfs = 260 if quick else 6000
    for j in range(nfs):
        k = rng.randint(1, 4)
        frames = [rng.randbytes(rng.choice([0, 1, 5, 14, 20, 33, 60])) for _ in range(k)]
        glen = rng.choice([0, 0, 0, 3, 11])
        yield ("fs", j), {"kind": "fullstack", "frames": frames, "garbage": _garbage(rng, glen, rng.random() < 0.5),
                          "ncuts": rng.choice([0, 1, 2, 3, 5, 9, 30, 10 ** 6]), "cseed": rng.getrandbits(32),
                          "gap": rng.choice([0.0, 0.05, 0.3, 0.45, 1.2, 1.7])}


def _read_now(proto):
    coro = proto.read(timeout=0)
    try:
        coro.send(None)
    except StopIteration as e:
        return True, e.value
    except asyncio.QueueEmpty:
        return False, None
    finally:
        coro.close()
    raise RuntimeError("read(timeout=0) suspended")


def _feed(ctx, case, stream, wire, ends, expected, cuts, proto=None):
    """Feed one segmentation; return True if it held."""
    if proto is None:
        proto = _LanProtocolV3()
        proto._local_key = KEY
    delivered = []
    bounds = [0] + list(cuts) + [len(wire)]
    for a, b in zip(bounds, bounds[1:]):
        try:
            proto.data_received(wire[a:b])
            while True:
                ok, val = _read_now(proto)
                if not ok:
                    break
                delivered.append(bytes(val))
        except Exception as e:  # noqa: BLE001
            ctx.violation("reassembly-raises", f"{type(e).__name__}: {e} while feeding segment [{a}:{b}]", case,
                          {"cuts": list(cuts), "wire": wire})
            return False
        due = [expected[i] for i, e in enumerate(ends) if e <= b]
        if delivered != due:
            if len(delivered) < len(due):
                mech, what = "packet-late-or-lost", "a packet whose last byte has arrived was not delivered"
            elif len(delivered) > len(due):
                mech, what = "packet-early-or-duplicated", "more packets delivered than have completely arrived"
            else:
                mech, what = "packet-content", "delivered packet content/order differs"
            ctx.violation(mech, f"{what} after segment [{a}:{b}]", case,
                          {"cuts": list(cuts), "wire": wire, "delivered": delivered, "due": due})
            return False
    return True


def _prep(stream):
    packs = [_mk_packet((p[0], bytes(p[1])), i) for i, p in enumerate(stream["p"])]
    wire = bytes(stream["g"]) + b"".join(w for w, _ in packs)
    ends = []
    pos = len(stream["g"])
    for w, _ in packs:
        pos += len(w)
        ends.append(pos)
    return wire, ends, [e for _, e in packs]


def run_case(ctx, case):
    kind = case["kind"]
    if kind == "fullstack":
        return _fullstack(ctx, case)
    if kind == "timed":
        return _timed(ctx, case)
    if kind == "straddle":
        return _straddle(ctx, case)
    if kind == "chain":
        proto = _LanProtocolV3()
        proto._local_key = KEY
        for idx, (stream, cuts) in enumerate(zip(case["streams"], case["cuts"])):
            wire, ends, expected = _prep(stream)
            ok = _feed(ctx, case, stream, wire, ends, expected, tuple(cuts), proto=proto)
            ctx.count(("chain", stream["sid"], tuple(cuts), idx), kind="chained-stream")
            if not ok:
                break
        return
    stream = case["stream"]
    wire, ends, expected = _prep(stream)
    n = len(wire)
    sid = stream["sid"]
    multi = len(expected) > 1 or len(stream["g"]) > 0
    if kind == "sizes":
        for cuts in case["cutsets"]:
            _feed(ctx, case, stream, wire, ends, expected, tuple(sorted(cuts)))
            ctx.count((sid, tuple(cuts)), kind="size-sweep", nontrivial=True)
        return
    if kind == "cuts":
        cuts = tuple(case["cuts"])
        ok = _feed(ctx, case, stream, wire, ends, expected, cuts)
        ctx.count((sid, cuts), kind="random-cuts", nontrivial=True,
                  sample={"stream_len": n, "packets": len(expected), "garbage": len(stream["g"]), "cuts": list(cuts)[:12]})
        return
    first = case["first"]
    maxcuts = case["maxcuts"]
    if first is None:
        ok = _feed(ctx, case, stream, wire, ends, expected, ())
        ctx.count((sid, ()), nontrivial=multi, kind="exhaustive-0cut")
        return
    combos = [()]
    rest = range(first + 1, n)
    if maxcuts >= 2:
        combos += [(c,) for c in rest]
    if maxcuts >= 3:
        combos += list(itertools.combinations(rest, 2))
    bad = 0
    for extra in combos:
        cuts = (first,) + extra
        if not _feed(ctx, case, stream, wire, ends, expected, cuts):
            bad += 1
            if bad > 3:
                break
        ctx.count((sid, cuts), kind=f"exhaustive-{len(cuts)}cut")


def _timed(ctx, case):
    """Segments arrive at chosen virtual instants (gaps 0 .. hours); a reader task reads with a timeout in a loop (reads
    time out in the long gaps and are re-issued).  Every packet must be returned, once, in order, at the instant its
    last byte arrived."""
    import random
    r = random.Random(case["tseed"])
    plan = []          # (gap before the segment, bytes)
    due = []           # (index of the segment completing the packet, payload)
    for stream, cuts in zip(case["streams"], case["cuts"]):
        wire, ends, expected = _prep(stream)
        bounds = [0] + list(cuts) + [len(wire)]
        base = len(plan)
        for a, b in zip(bounds, bounds[1:]):
            plan.append((r.choice([0.0, 0.0, 0.001, 0.3, 0.9, 1.3, 2.5, 7.0, 45.0]), wire[a:b]))
        for e, payload in zip(ends, expected):
            due.append((base + next(i for i, b in enumerate(bounds[1:]) if b >= e), payload))
    rt = case["read_timeout"]
    arrival = []
    got = []
    info = {"timeouts": 0, "feeding": True, "err": None}

    async def go(loop):
        proto = _LanProtocolV3()
        proto._local_key = KEY

        async def reader():
            idle = 0
            while idle < 2:
                try:
                    v = await proto.read(timeout=rt)
                    got.append((loop.time(), bytes(v)))
                except (TimeoutError, asyncio.TimeoutError):
                    info["timeouts"] += 1
                    if not info["feeding"]:
                        idle += 1
                except Exception as e:  # noqa: BLE001
                    info["err"] = e
                    return

        task = asyncio.ensure_future(reader())
        await asyncio.sleep(r.choice([0.0, 0.1, 2.5, 6.0]))       # the reader may already have timed out before anything arrives
        for gap, seg in plan:
            await asyncio.sleep(gap)
            arrival.append(loop.time())
            proto.data_received(seg)
        info["feeding"] = False
        await task

    key_ = ("timed", case["tseed"])
    try:
        H.run_virtual(go, H.new_net())
    except Exception as e:  # noqa: BLE001
        ctx.count(key_, kind="timed-raised")
        ctx.violation("reassembly-raises", f"{type(e).__name__}: {e} (timed delivery)", case)
        return
    ctx.count(key_, kind="timed-delivery", sample={"segments": len(plan), "packets": len(due), "read_timeouts": info["timeouts"],
                                                   "read_timeout": rt, "gaps": [g for g, _ in plan][:10]})
    ctx.bump("timed-read-timeouts", info["timeouts"])
    if info["err"] is not None:
        ctx.violation("reassembly-raises", f"read raised {type(info['err']).__name__}: {info['err']} (timed delivery)", case)
        return
    want = [p for _, p in due]
    have = [p for _, p in got]
    if have != want:
        mech = "packet-late-or-lost" if len(have) < len(want) else ("packet-early-or-duplicated" if len(have) > len(want) else "packet-content")
        ctx.violation(mech, f"timed delivery: {len(have)} packets returned by read(), {len(want)} sent ({info['timeouts']} reads timed out)", case,
                      {"gaps": [g for g, _ in plan]})
        return
    for (t, _), (seg_i, _) in zip(got, due):
        if abs(t - arrival[seg_i]) > 1e-9:
            ctx.violation("packet-late-or-lost", f"timed delivery: packet returned at {t:.3f}, its last byte arrived at {arrival[seg_i]:.3f}", case)
            return


def _straddle(ctx, case):
    frames = [bytes(f) for f in case["frames"]]
    tok, key = bytes(range(64)), bytes(range(100, 132))
    net = H.new_net()
    dev = SimDevice(net, version=3, token=tok, key=key, device_id=78)
    dev.fifo = True
    n = {"x": 0}

    def on_exchange(conn, req, packets, meta):
        n["x"] += 1
        if "pk" not in n:
            n["pk"] = [dev.wrap(conn, f) for f in frames]      # built once: head and tail must belong to the same packet
        pk = n["pk"]
        cut = case["cut"] if case["cut"] > 0 else len(pk[1]) + case["cut"]
        cut = max(1, min(len(pk[1]) - 1, cut))
        if n["x"] == 1:
            return [(0, pk[0] + pk[1][:cut])]
        if n["x"] == 2:
            return [(0.05, pk[1][cut:] + pk[2])]
        return [(0, dev.wrap(conn, b"\xaa\x0b\xac" + bytes(7) + b"\xee"))]

    dev.on_exchange = on_exchange

    async def go(loop):
        lan = LAN(dev.host, dev.port, 78)
        await lan.authenticate(tok, key)
        a = list(await lan.send(b"\xaa\x0b\xac" + bytes(8)))
        await asyncio.sleep(0.2)
        b = list(await lan.send(b"\xaa\x0b\xac" + bytes(8)))
        await asyncio.sleep(0.5)
        c = list(await lan.send(b"\xaa\x0b\xac" + bytes(7) + b"\x01"))
        return a, b, c

    key_ = ("straddle", case["cseed"], case["cut"])
    try:
        (a, b, c), loop = H.run_virtual(go, net)
    except Exception as e:  # noqa: BLE001
        ctx.count(key_, kind="fullstack-raised")
        ctx.violation("fullstack-raises", f"{type(e).__name__}: {e} for a packet straddling two exchanges", case)
        return
    got = [bytes(x) for x in a + b + c]
    if got[:3] != frames or [bytes(x) for x in a] != frames[:1]:
        ctx.count(key_, kind="fullstack-mismatch")
        ctx.violation("fullstack-frames", f"a packet whose head arrived with one reply and whose tail arrived after the next request: "
                      f"frames returned {[len(g) for g in got]}, sent {[len(f) for f in frames]}", case)
        return
    ctx.count(key_, kind="fullstack-ok", sample={"cut": case["cut"]})


def _fullstack(ctx, case):
    import random
    frames = [bytes(f) for f in case["frames"]]
    tok, key = bytes(range(64)), bytes(range(100, 132))

    def one_run(reference_of=None):
        """The scenario once.  reference_of=None: the case's segmentation.  Otherwise: the same stream, every packet delivered whole, in
        one segment, at the instant its last byte arrived in the given (earlier) run - the segmentation-free reference for timing."""
        net = H.new_net()
        dev = SimDevice(net, version=3, token=tok, key=key, device_id=77)
        r = random.Random(case["cseed"])
        plan = {}

        def on_exchange(conn, req, packets, meta):
            if plan.get("done"):
                return [(0, dev.wrap(conn, b"\xaa\x0b\xac" + bytes(7) + b"\xee"))]
            plan["done"] = True
            plan["t_req"] = conn.now()
            pk = [dev.wrap(conn, f) for f in frames]
            stream = bytes(case["garbage"]) + b"".join(pk)
            n = len(stream)
            k = min(case["ncuts"], n - 1)
            cuts = sorted(r.sample(range(1, n), k)) if k else []
            bounds = [0] + cuts + [n]
            gap = case["gap"]
            actions = []
            t = 0.1
            seg_t = []
            for a, b in zip(bounds, bounds[1:]):
                actions.append((t, stream[a:b]))
                seg_t.append((b, t))
                if gap:
                    t += min(gap, 1.9 / max(1, len(bounds)))   # total stays far below the 2 s read timeout
            ends, pos = [], len(case["garbage"])
            for p in pk:
                pos += len(p)
                ends.append(pos)
            done_at = [next(tt for b, tt in seg_t if b >= e) for e in ends]       # instant at which each packet is complete
            plan["t_first"] = done_at[0]
            plan["done_at"] = done_at
            plan["cuts"] = cuts
            if reference_of is not None:
                starts = [0] + ends[:-1]
                return [(reference_of[i], stream[starts[i]:ends[i]]) for i in range(len(pk))]
            return actions

        dev.on_exchange = on_exchange

        async def go(loop):
            lan = LAN(dev.host, dev.port, 77)
            await lan.authenticate(tok, key)
            t0 = loop.time()
            got = list(await lan.send(b"\xaa\x0b\xac" + bytes(8)))
            t1 = loop.time()
            await asyncio.sleep(3.3)
            got2 = list(await lan.send(b"\xaa\x0b\xac" + bytes(8)))
            return t0, t1, got, got2

        (t0, t1, got, got2), loop = H.run_virtual(go, net)
        return plan, t1, got, got2

    key_ = ("fs", case["cseed"], len(frames), case["ncuts"])
    try:
        plan, t1, got, got2 = one_run()
    except Exception as e:  # noqa: BLE001
        ctx.count(key_, kind="fullstack-raised")
        ctx.violation("fullstack-raises", f"{type(e).__name__}: {e} for a segmented genuine reply stream", case)
        return
    allgot = [bytes(g) for g in got + got2]
    want = frames + [b"\xaa\x0b\xac" + bytes(7) + b"\xee"]
    if allgot != want:
        ctx.count(key_, kind="fullstack-mismatch")
        ctx.violation("fullstack-frames", "frames returned by consecutive sends differ from the frames the device sent", case,
                      {"cuts": plan.get("cuts"), "got": allgot, "want": want})
        return
    # promptness ("as soon as its last byte has arrived", observed where send() returns) is judged against the same exchange with the
    # same packets completing at the same instants but delivered unsegmented: whatever send() does once a reply is complete (return at
    # once, or collect trailing responses for a moment), segmentation must not make it later; and it must not approach the 2 s read
    # timeout.  Measured from the instant the device received the request.
    late = (t1 - plan["t_req"]) - plan["t_first"]
    # (with a gap between segments every segment has its own instant, so "complete at the instant the send returned" means "in the
    # very segment that completed the first packet"; without gaps only strictly earlier completions are counted)
    # (... and only if the send returned at that very instant: a send that lingers has timers of its own, and a packet completing
    # exactly when such a timer fires is a tie on the virtual clock, not a withheld packet)
    slack = 1e-9 if (case["gap"] and abs(late) < 1e-9) else -1e-6
    arrived = sum(1 for d in plan["done_at"] if d <= (t1 - plan["t_req"]) + slack)
    if len(got) < arrived:
        ctx.count(key_, kind="fullstack-late")
        ctx.violation("fullstack-withheld", f"{arrived} packets of the reply had completely arrived before the first send returned, it returned {len(got)} "
                      f"(the rest only came out of the next send)", case, {"cuts": plan.get("cuts")})
        return
    try:
        plan0, t1_0, got_0, got2_0 = one_run(reference_of=plan["done_at"])
        late0 = (t1_0 - plan0["t_req"]) - plan0["t_first"]
    except Exception as e:  # noqa: BLE001
        ctx.count(key_, kind="fullstack-raised")
        ctx.violation("fullstack-raises", f"{type(e).__name__}: {e} for the unsegmented delivery of a genuine reply stream", case)
        return
    if late < -1e-6 or late > late0 + 1e-6 or late0 > 0.5 or len(got) < len(got_0):
        ctx.count(key_, kind="fullstack-late")
        ctx.violation("fullstack-promptness", f"first send returned {late:.3f}s after the first packet of the reply was complete ({len(got)} frames); with the same packets "
                      f"delivered unsegmented at the same instants it returns {late0:.3f}s after it ({len(got_0)} frames)", case, {"cuts": plan.get("cuts")})
        return
    ctx.count(key_, kind="fullstack-ok", sample={"frames": [f.hex() for f in frames], "cuts": plan["cuts"][:10], "t_first": plan["t_first"]})
