"""C13 - corrupted responses are rejected and never change state."""
from __future__ import annotations

from .. import harness as H
from ..ref import acframe, acprops, acstate
from ..simdev import ACModel, SimDevice

from msmart.device import AirConditioner as AC

ID = "C13"
LEVEL = "fault_enumeration"
RULE = ("for each response kind (state, capabilities, properties, energy, humidity): a valid frame describing a state different in every "
        "field from the client's current one is corrupted at one byte position after the start byte with a substitute value, either "
        "plain (outer checksum now wrong) or - for body bytes other than the trailing check byte - with the outer checksum recomputed; "
        "the client has previously learned a capability profile with property-protocol features, energy and humidity reporting and holds valid readings; the frame - once, or 2-5 copies of it in one exchange - is the only answer to every command of a refresh() (and for capabilities also to get_capabilities(), and in one case in six to toggle_display()); in a third of the cases a healthy multi-command refresh is abandoned (cancelled) by its caller after its first answer, just before the corrupted ones; in half of the cases another client object with its own device receives and accepts the genuine frame first (and again every 10 corruptions). Independent validity predicate "
        "V = outer checksum ok and (id in {B0,B1} or CRC-8 ok or additive ok); for not V: to_dict() and the capability attributes must be "
        "unchanged and online/supported must be False. Corruptions with V true (the other check matches by chance, or the property-response "
        "exemption) are skipped and counted. distinct = (kind, position, value, fix-up); all judged cases are non-trivial")
ASSUMPTIONS = ["validity is as defined in the first sentence of the statement; ~1/255 of body substitutions satisfy the other body check and are skipped",
               "property responses with a recomputed outer checksum are exempt by design and skipped"]
# reach anchors: only entry points this check calls itself or callbacks the event loop needs (robust against internal refactors);
# that the mechanism was really exercised is demanded through MIN_NONTRIVIAL / MIN_HIST outcome counts
ANCHORS = ["command.py:Response.construct", "device.py:AirConditioner.refresh", "device.py:AirConditioner.get_capabilities"]
MIN_NONTRIVIAL = {"quick": 8000, "thorough": 60000}
WORKERS = {"quick": 1, "thorough": 16}
EXHAUSTIVE = {"quick": ["every byte position after the start byte x 29 sampled substitute values x {plain, outer checksum recomputed} for 5 response kinds"],
              "thorough": ["every byte position after the start byte x all 255 substitute values x {plain, outer checksum recomputed} for 5 response kinds and both body-check styles"]}

S0 = {"power": False, "mode": 2, "target_temperature": 20.0, "fan": 40, "swing": 0, "eco": False, "turbo": False, "sleep": False,
      "fahrenheit": False, "freeze_protection": False, "follow_me": False, "purifier": False, "target_humidity": 40, "aux": 0,
      "display_on": True, "filter_alert": False, "indoor_raw": 0x60, "outdoor_raw": 0x50, "indoor_tenths": 0, "outdoor_tenths": 0}
S1 = {"power": True, "mode": 4, "target_temperature": 27.5, "fan": 80, "swing": 0xF, "eco": True, "turbo": True, "sleep": True,
      "fahrenheit": True, "freeze_protection": True, "follow_me": True, "purifier": True, "target_humidity": 66, "aux": 1,
      "display_on": False, "filter_alert": True, "indoor_raw": 0x70, "outdoor_raw": 0x40, "indoor_tenths": 3, "outdoor_tenths": 4}

# the client's established capabilities include property-protocol features, energy and humidity reporting, so that
# "stays exactly as it was" also covers those readings and the supports_* flags
CAPS0 = [(0x0214, b"\x01"), (0x0215, b"\x01"), (0x0210, b"\x05"), (0x0212, b"\x01"), (0x0216, b"\x02"), (0x021F, b"\x01"),
         (0x0009, b"\x01"), (0x000A, b"\x01"), (0x0039, b"\x01"), (0x0042, b"\x01"), (0x0018, b"\x01"), (0x00E3, b"\x01")]
PROPS0 = {0x0009: b"\x19", 0x000A: b"\x32", 0x0039: b"\x00", 0x0042: b"\x02", 0x0018: b"\x00", 0x00E3: b"\x01\x01"}
CAPS1 = [(0x0214, b"\x02"), (0x0215, b"\x03"), (0x0210, b"\x07"), (0x0212, b"\x00"), (0x021A, b"\x02"), (0x0213, b"\x00"),
         (0x0225, bytes([34, 60, 34, 60, 34, 60, 1])), (0x0216, b"\x02"), (0x021F, b"\x02"), (0x0043, b"\x01"), (0x0048, b"\x02")]


def _valid_frames(check):
    fr = {}
    fr["state"] = acframe.build(acstate.encode_0xC0(S1, 23), acframe.FT_QUERY, check=check)
    fr["caps"] = acframe.build(acprops.build_caps(CAPS1, False), acframe.FT_QUERY, check=check)
    fr["props"] = acframe.build(acprops.build_report(0xB1, [(0x0009, 0, b"\x32"), (0x000A, 0, b"\x4B"), (0x0039, 0, b"\x01"),
                                                             (0x0048, 0, b"\x32"), (0x0043, 0, b"\x03"), (0x00E3, 0, b"\x01\x01")]),
                                acframe.FT_QUERY, check=check)
    e = bytearray(21)
    e[0:4] = bytes([0xC1, 0x21, 0x01, 0x44])
    e[4:8] = bytes([0x00, 0x12, 0x34, 0x56])
    e[12:16] = bytes([0x00, 0x00, 0x07, 0x89])
    e[16:19] = bytes([0x00, 0x15, 0x50])
    fr["energy"] = acframe.build(bytes(e), acframe.FT_QUERY, check=check)
    h = bytearray(21)
    h[0:4] = bytes([0xC1, 0x21, 0x01, 0x45])
    h[4] = 63
    fr["humidity"] = acframe.build(bytes(h), acframe.FT_QUERY, check=check)
    return fr


def generate(ctx, rng):
    quick = ctx.tier == "quick"
    for check in (("crc",) if quick else ("crc", "sum")):
        frames = _valid_frames(check)
        for kind, frame in frames.items():
            n = len(frame)
            for pos in range(1, n):
                if quick:
                    vals = sorted(rng.sample(range(1, 256), 29))
                else:
                    vals = list(range(1, 256))
                yield ("c", check, kind, pos), {"kind": kind, "check": check, "pos": pos, "xors": vals, "genuine_seen": pos % 2 == 1, "abandoned_refresh": pos % 3 == 2}
    # the length byte (position 1) with all 255 values over many different valid frames (a weakened outer check that trusts the
    # declared length is only fooled by particular frame contents)
    for j in range(40 if quick else 3000):
        yield ("lenbyte", j), {"kind": "lenbyte", "check": "crc", "fseed": rng.getrandbits(32)}
    # sanity: the uncorrupted frames ARE used (otherwise "unchanged" would be vacuous)
    yield ("baseline",), {"kind": "baseline", "check": "crc"}


def _snapshot(ac):
    d = dict(ac.to_dict())
    d.pop("online", None)
    d.pop("supported", None)
    caps = {
        "modes": list(ac.supported_operation_modes), "swing": list(ac.supported_swing_modes), "fans": list(ac.supported_fan_speeds),
        "custom_fan": ac.supports_custom_fan_speed, "eco": ac.supports_eco, "turbo": ac.supports_turbo,
        "freeze": ac.supports_freeze_protection, "display": ac.supports_display_control, "filter": ac.supports_filter_reminder,
        "purifier": ac.supports_purifier, "humidity": ac.supports_humidity, "target_humidity": ac.supports_target_humidity,
        "min": ac.min_target_temperature, "max": ac.max_target_temperature, "rates": list(ac.supported_rate_selects),
        "aux": list(ac.supported_aux_modes), "breeze_away": ac.supports_breeze_away, "breeze_mild": ac.supports_breeze_mild,
        "breezeless": ac.supports_breezeless, "ieco": ac.supports_ieco, "self_clean": ac.supports_self_clean,
        "h_angle": ac.supports_horizontal_swing_angle, "v_angle": ac.supports_vertical_swing_angle,
        "energy_requests": ac.enable_energy_usage_requests,
    }
    return d, caps


def _is_valid(frame):
    if not acframe.outer_ok(frame):
        return False
    if len(frame) > 10 and frame[10] in (0xB0, 0xB1):
        return True
    return acframe.body_check_ok(frame)


def run_case(ctx, case):
    kind = case["kind"]
    frames = _valid_frames(case["check"])
    net = H.new_net()
    model = ACModel(S0)
    model.caps_pages = [CAPS0]
    model.props = dict(PROPS0)
    model.energy = (bytes([0x00, 0x05, 0x65, 0x02]), bytes([0x00, 0x00, 0x01, 0x50]), bytes([0x00, 0x07, 0x30]))
    model.humidity = 47
    dev = SimDevice(net, version=2, device_id=0x77, ac=model)
    feed = {"frames": None}

    def on_exchange(conn, req, packets, meta):
        if feed.get("slow") is not None:
            # a healthy refresh: the first command is answered, then the device closes the connection and the reconnect for the
            # second command hangs - that is where the caller gives up (a cancellation while *waiting for a reply* is turned
            # into a timeout by LAN.send and would not end the refresh)
            feed["slow"] += 1
            if feed["slow"] == 1:
                dev.connect_script = ["hang"]
                return [(0, p) for p in packets] + [(0, "fin")]
            return None
        if feed["frames"] is None:
            return None
        return [(0, dev.wrap(conn, f)) for f in feed["frames"]]

    dev.on_exchange = on_exchange
    out = []
    # a second appliance with its own client object: it receives (and accepts) the genuine frame that the first one only ever
    # sees corrupted - whatever the library remembers about a frame it has validated must not vouch for an altered copy
    dev2 = SimDevice(net, host="10.0.0.3", version=2, device_id=0x78, ac=ACModel(S0))
    feed2 = {"frames": None}
    dev2.on_exchange = lambda conn, req, packets, meta: None if feed2["frames"] is None else [(0, dev2.wrap(conn, f)) for f in feed2["frames"]]
    other = {"ac": None, "n": 0}

    async def genuine_elsewhere(frame):
        if other["ac"] is None:
            other["ac"] = AC(ip=dev2.host, port=dev2.port, device_id=dev2.device_id)
        feed2["frames"] = [frame]
        if len(frame) > 10 and frame[10] == 0xB5:
            await other["ac"].get_capabilities()
        else:
            await other["ac"].refresh()
        other["n"] += 1

    async def abandoned_refresh(ac):
        """A refresh (several commands) that its caller cancels after the first answer arrived; nothing of it may linger."""
        import asyncio
        feed["slow"] = 0
        task = asyncio.ensure_future(ac.refresh())
        await asyncio.sleep(0.4)
        task.cancel()
        try:
            await task
        except BaseException:  # noqa: BLE001
            pass
        feed["slow"] = None
        dev.connect_script = []
        await asyncio.sleep(3.0)
        other["abandoned"] = other.get("abandoned", 0) + 1

    async def baseline(ac):
        feed["frames"] = None
        await ac.get_capabilities()
        await ac.refresh()
        return _snapshot(ac)

    async def go(loop):
        ac = AC(ip=dev.host, port=dev.port, device_id=dev.device_id)
        base = await baseline(ac)
        if kind == "baseline":
            for k, f in frames.items():
                feed["frames"] = [f]
                if k == "caps":
                    await ac.get_capabilities()
                else:
                    await ac.refresh()
                snap = _snapshot(ac)
                out.append(("baseline", k, snap != base, ac.online, ac.supported))
                base = await baseline(ac)
            return
        if kind == "lenbyte":
            import random as _r
            rr = _r.Random(case["fseed"])
            st = {**S1, "target_temperature": rr.choice([17.0, 21.5, 26.0, 30.0]), "fan": rr.randint(1, 102), "indoor_raw": rr.randint(40, 120),
                  "outdoor_raw": rr.randint(20, 130), "target_humidity": rr.randint(30, 90), "mode": rr.randint(1, 5)}
            frame = acframe.build(acstate.encode_0xC0(st, rr.choice([23, 24, 26, 30])), acframe.FT_QUERY, check=case["check"])
            pos_list = [(1, x) for x in range(1, 256)]
        else:
            frame = frames[kind]
            pos_list = [(case["pos"], x) for x in case["xors"]]
        n = len(frame)
        for i, (pos, x) in enumerate(pos_list):
            if case.get("genuine_seen", kind == "lenbyte") and i % 10 == 0:
                await genuine_elsewhere(frame)
            if case.get("abandoned_refresh") and i % 12 == 0:
                await abandoned_refresh(ac)
                # a healthy refresh, even an abandoned one, may legitimately have brought news from the unit (e.g. the display
                # state after an earlier toggle whose corrupted acknowledgement was dropped): what the client exposes NOW is
                # the reference for the corrupted frames that follow (no exchange here - nothing may be cleaned up)
                base = _snapshot(ac)
            c = bytearray(frame)
            c[pos] ^= x
            variants = [("plain", bytes(c))]
            if 10 <= pos <= n - 3:
                variants.append(("fixup", acframe.fix_outer(bytes(c))))
            for vname, cf in variants:
                if _is_valid(cf):
                    out.append(("skip", vname, cf, None, None, None))
                    continue
                # the exchange may carry the corrupted frame once, or several corrupted frames (copies, or copies of an earlier one)
                ncopies = [1, 1, 2, 3, 5][i % 5]
                feed["frames"] = [cf] * ncopies
                ops = ["refresh"] + (["caps"] if kind == "caps" else []) + (["toggle"] if i % 6 == 1 else [])
                for op in ops:
                    try:
                        if op == "caps":
                            await ac.get_capabilities()
                        elif op == "toggle":
                            await ac.toggle_display()
                        else:
                            await ac.refresh()
                        exc = None
                    except Exception as e:  # noqa: BLE001
                        exc = e
                    snap = _snapshot(ac)
                    out.append((op, vname, cf, exc, snap == base, (ac.online, ac.supported), x, pos))
                    if snap != base or exc is not None:
                        diff = {k: (base[0].get(k), snap[0].get(k)) for k in base[0] if base[0].get(k) != snap[0].get(k)}
                        diff.update({k: (base[1][k], snap[1][k]) for k in base[1] if base[1][k] != snap[1][k]})
                        out[-1] = out[-1] + (diff,)
                        base = await baseline(ac)

    H.run_virtual(go, net)
    ctx.bump("genuine-frame-accepted-by-another-client-first", other["n"])
    ctx.bump("abandoned-healthy-refresh-before-corrupted-ones", other.get("abandoned", 0))
    for rec in out:
        if rec[0] == "baseline":
            _, k, changed, online, supported = rec
            ctx.count(("baseline", k), nontrivial=False, kind="baseline-valid-frame-used")
            if not online or not supported:
                ctx.inconclusive_because(f"valid {k} frame was not accepted by the client; the 'dropped' oracle would be vacuous")
            if k != "caps" and k != "humidity" and not changed:
                ctx.inconclusive_because(f"valid {k} frame did not change the exposed state; the 'unchanged' oracle would be vacuous")
            continue
        if rec[0] == "skip":
            ctx.skip(f"corruption still valid ({rec[1]})")
            continue
        op, vname, cf, exc, same, (online, supported), x, pos = rec[:8]
        key = (kind, case["check"], pos, x, vname, op, case.get("fseed"))
        ctx.count(key, kind=f"{kind}-{vname}", sample={"kind": kind, "pos": pos, "xor": x, "variant": vname, "frame": cf})
        one = {**case, "xors": [x]}
        if exc is not None:
            ctx.violation("raises", f"{op} raised {type(exc).__name__}: {exc} for a corrupted {kind} frame", one, {"frame": cf})
            continue
        if not same:
            ctx.violation("corrupted-frame-used", f"state changed after a corrupted {kind} frame ({vname}, byte {pos})", one,
                          {"frame": cf, "diff": rec[8] if len(rec) > 8 else None})
        if op in ("refresh", "toggle") and (online or supported):
            ctx.violation("online-after-only-corrupted", f"refresh that saw only a corrupted {kind} frame reports online={online} supported={supported}",
                          one, {"frame": cf})
        if op == "caps" and (online or supported):
            # the capabilities query follows a refresh that saw only the corrupted frame (offline, unsupported): answered by the
            # same corrupted frame it must leave that exactly as it was
            ctx.violation("online-after-only-corrupted", f"get_capabilities() answered only by a corrupted {kind} frame changed online/supported to "
                          f"{online}/{supported}", one, {"frame": cf})
