"""C08 - retry, timeout and recovery contract of an exchange."""
from __future__ import annotations

import asyncio
import itertools
import math

from .. import harness as H
from ..ref import acframe, v3
from ..simdev import SimDevice

from msmart.device import AirConditioner as AC
from msmart.lan import LAN, ProtocolError

ID = "C08"
LEVEL = "fault_enumeration"
RULE = ("(A) retry model on virtual time: for every retry budget r in 1..4, every pattern of per-transmission answer delays in "
        "{never, 0.3, 1.75, 2.25, 4.25, 6.25} s and both protocol versions, the simulated device counts the transmissions of the request; "
        "reference: transmissions at 0,2,4,.. until the first response arrival A, count = min(r, floor(A/2)+1), success iff A < 2r, return "
        "instant = A (or 2r for the timeout); no transmission after A. (B) faults: every single fault and every ordered pair of consecutive "
        "faulted exchanges from {drop, wedged connection, error packet, garbage, error/garbage/cancel followed by a wedged connection, peer FIN, peer RST, refused connect, hanging connect, connect failing with host/network unreachable, name resolution failure, several addresses all refused, OS-level connect timeout, "
        "accept-then-close, cancellation} in the phases where they apply (connect, handshake, data), with max_connection_lifetime in {None, 90 s, 1 h}, after an initial successful exchange; the "
        "following exchange against a promptly answering device must succeed with no user intervention; the same at device level: refresh() "
        "never raises, reports online=False for the failed exchange and online=True afterwards. (C) cancellation instants swept over the "
        "exchange on a 0.1 s grid. distinct = (workload, version, parameters); all non-trivial")
ASSUMPTIONS = ["virtual time decides all timing verdicts; scripted delays are offset by 0.25 s from every timeout instant",
               "credentials are known to the client from an earlier successful authenticate (needed for unattended re-authentication)",
               "the outcome class of the faulted exchange itself is C09's business; here only counts, instants and recovery are judged"]
# reach anchors: only entry points this check calls itself or callbacks the event loop needs (robust against internal refactors);
# that the mechanism was really exercised is demanded through MIN_NONTRIVIAL / MIN_HIST outcome counts
ANCHORS = ["lan.py:LAN.send", "lan.py:LAN._connect", "lan.py:LAN._disconnect", "base_device.py:Device._send_command", "device.py:AirConditioner.refresh"]
MIN_NONTRIVIAL = {"quick": 3000, "thorough": 20000}
MIN_HIST = {"quick": {"recovery-ok": 600, "retry-model-ok": 2500}, "thorough": {"recovery-ok": 8000, "retry-model-ok": 5000}}
WORKERS = {"quick": 1, "thorough": 16}
EXHAUSTIVE = {"quick": ["all answer-delay patterns for r=1..4 x {V2,V3}", "all single faults and all ordered pairs of faults x {V2,V3}",
                        "cancel instants 0.03..6.43 step 0.1"],
              "thorough": ["as quick", "all ordered triples of faults", "device-level (refresh) variant of every single/pair fault sequence"]}

DELAYS = [None, 0.3, 1.75, 2.25, 4.25, 6.25]
TOKEN = bytes(range(3, 67))
KEY = bytes(range(90, 122))

# (phase, fault)
CONNECT_ERRORS = ("refuse", "hang", "unreachable", "netunreach", "gaierror", "multi-refused", "etimedout")
FAULTS_V3 = [("connect", "refuse"), ("connect", "hang"), ("connect", "accept-rst"), ("connect", "accept-fin"),
             ("connect", "unreachable"), ("connect", "netunreach"), ("connect", "gaierror"), ("connect", "multi-refused"), ("connect", "etimedout"),
             ("handshake", "drop"), ("handshake", "error"), ("handshake", "garbage"), ("handshake", "fin"), ("handshake", "rst"),
             ("handshake", "cancel"), ("handshake", "slow-cancel"),
             ("data", "drop"), ("data", "wedge"), ("data", "error"), ("data", "garbage"), ("data", "fin"), ("data", "rst"), ("data", "cancel"),
             ("data", "error-wedge"), ("data", "garbage-wedge"), ("data", "cancel-wedge"),
             # not faults of the exchange itself: the unit answers and closes the connection at once (one request per connection)
             ("data", "answer-fin"), ("data", "answer-rst"),
             # ... or closes the idle connection between two exchanges (the exchange that follows must simply work)
             ("idle", "idle-fin"), ("idle", "idle-rst")]
BENIGN = ("answer-fin", "answer-rst", "idle-fin", "idle-rst")
FAULTS_V2 = [f for f in FAULTS_V3 if f[0] != "handshake"]


def generate(ctx, rng):
    quick = ctx.tier == "quick"
    for version in (2, 3):
        for r in (1, 2, 3, 4):
            pats = list(itertools.product(range(len(DELAYS)), repeat=r))
            for i in range(0, len(pats), 54):
                yield ("retry", version, r, i), {"kind": "retry", "version": version, "r": r, "patterns": [list(p) for p in pats[i:i + 54]]}
            # the same when the exchange first has to reconnect (and, on V3, to re-authenticate): the retry clock starts with the
            # first transmission, not with the call
            for i in range(0, len(pats), 54):
                if (i // 54) % 3 == 0 or not quick:
                    yield ("retry-reconnect", version, r, i), {"kind": "retry", "version": version, "r": r, "reconnect": True,
                                                               "patterns": [list(p) for p in pats[i:i + 54]]}
        faults = FAULTS_V3 if version == 3 else FAULTS_V2
        for f in faults:
            for lt in (None, 90, 3600):
                yield ("fault", version, f, lt), {"kind": "faults", "version": version, "seq": [list(f)], "level": "lan", "lifetime": lt}
                yield ("fault-dev", version, f, lt), {"kind": "faults", "version": version, "seq": [list(f)], "level": "device", "lifetime": lt}
        for n2, (f, g) in enumerate(itertools.product(faults, repeat=2)):
            lt = [None, 90, None, 3600][n2 % 4]
            yield ("fault2", version, f, g), {"kind": "faults", "version": version, "seq": [list(f), list(g)], "level": "lan", "lifetime": lt}
            if not quick:
                yield ("fault2-dev", version, f, g), {"kind": "faults", "version": version, "seq": [list(f), list(g)], "level": "device"}
        if not quick:
            for f, g, h in itertools.product(faults, repeat=3):
                yield ("fault3", version, f, g, h), {"kind": "faults", "version": version, "seq": [list(f), list(g), list(h)], "level": "lan"}
                yield ("fault3-dev", version, f, g, h), {"kind": "faults", "version": version, "seq": [list(f), list(g), list(h)], "level": "device"}
        else:
            for _ in range(120):
                seq = [list(rng.choice(faults)) for _ in range(3)]
                yield ("fault3", version, tuple(map(tuple, seq))), {"kind": "faults", "version": version, "seq": seq, "level": rng.choice(["lan", "device"])}
        # cancel sweep
        for k in range(0, 65):
            for rd in ([[None, 0.3, 2.25, 4.25][k % 4]] if quick else [None, 0.3, 2.25, 4.25]):
                yield ("cancel", version, k, rd), {"kind": "cancel", "version": version, "at": 0.03 + 0.1 * k, "reply_delay": rd}
    # the same object used by a second asyncio.run() of the process, after a first run that ended without a connection
    for version in (2, 3):
        for ending in ("refused", "silent", "error", "garbage", "hang"):
            for level in ("lan", "device"):
                yield ("second-loop", version, ending, level), {"kind": "second-loop", "version": version, "ending": ending, "level": level}
    # longer fault sequences (thorough): 4..6 consecutive faults, then recovery
    if not quick:
        for j in range(40000):
            version = rng.choice([2, 3])
            faults = FAULTS_V3 if version == 3 else FAULTS_V2
            seq = [list(rng.choice(faults)) for _ in range(rng.randint(4, 6))]
            yield ("faultN", j), {"kind": "faults", "version": version, "seq": seq, "level": rng.choice(["lan", "device"]),
                                  "lifetime": rng.choice([None, None, 90, 3600])}
    # finer delay grid (thorough)
    if not quick:
        fine = [None, 0.05, 0.95, 1.95, 2.05, 3.95, 4.05, 5.95, 6.05, 7.95]
        for version in (2, 3):
            for r in (1, 2, 3, 4):
                pats = list(itertools.product(range(len(fine)), repeat=min(r, 3)))
                for i in range(0, len(pats), 50):
                    yield ("retry-fine", version, r, i), {"kind": "retry", "version": version, "r": r, "grid": fine,
                                                          "patterns": [list(p) + [0] * (r - len(p)) for p in pats[i:i + 50]]}


def _mkdev(net, version):
    return SimDevice(net, version=version, token=TOKEN, key=KEY, device_id=0xC08)


def _model(r, delays):
    """Reference retry model -> (transmission count, first arrival A or None)."""
    A = math.inf
    count = 0
    for i in range(r):
        t = 2.0 * i
        if t >= A:
            break
        count += 1
        d = delays[i]
        if d is not None:
            A = min(A, t + d)
    ok = A < 2.0 * r
    return count, (A if ok else None)


def run_case(ctx, case):
    k = case["kind"]
    if k == "retry":
        return _retry(ctx, case)
    if k == "faults":
        return _faults(ctx, case)
    if k == "second-loop":
        return _second_loop(ctx, case)
    return _cancel(ctx, case)


# ---------------------------------------------------------------------------
def _retry(ctx, case):
    version, r = case["version"], case["r"]
    grid = case.get("grid", DELAYS)
    net = H.new_net()
    dev = _mkdev(net, version)
    st = {"delays": None, "frame": None, "n": 0, "times": [], "all": 0}

    def on_exchange(conn, req, packets, meta):
        st["all"] += 1
        if st["delays"] is None or req != st["frame"]:
            return None
        i = st["n"]
        st["n"] += 1
        st["times"].append(conn.now())
        d = st["delays"][i] if i < len(st["delays"]) else None
        if d is None:
            return []
        return [(d, p) for p in packets]

    dev.on_exchange = on_exchange
    out = []

    async def go(loop):
        lan = LAN(dev.host, dev.port, dev.device_id)
        if version == 3:
            await lan.authenticate(TOKEN, KEY)
        await lan.send(acframe.state_query(0))
        mid = 1
        for pat in case["patterns"]:
            delays = [grid[x] for x in pat]
            mid = (mid % 250) + 1
            q = acframe.state_query(mid)
            if case.get("reconnect"):
                for c in dev.conns:
                    if not c.closed:
                        c.emit([(0, "fin")])
                await asyncio.sleep(0.05)
            st.update(delays=delays, frame=q, n=0, times=[])
            t0 = loop.time()
            try:
                res = await lan.send(q, retries=r)
                outcome = ("ok", len(res))
            except TimeoutError:
                outcome = ("timeout", 0)
            except (KeyboardInterrupt, SystemExit):
                raise
            except BaseException as e:  # noqa: BLE001
                outcome = (type(e).__name__, 0)
            t1 = loop.time()
            if case.get("reconnect") and st["times"]:
                t0 = st["times"][0]          # connect (+ handshake and settling pause) precede the first transmission
            n_tx, times = st["n"], [t - t0 for t in st["times"]]
            st["delays"] = None
            # let stragglers arrive, then verify recovery with a prompt device
            await asyncio.sleep(9.13)
            late_tx = st["n"] - n_tx
            all0 = st["all"]
            try:
                rec = await lan.send(acframe.state_query(0))
                recovered = len(rec) > 0
                if st["all"] == all0:
                    recovered = "request-never-transmitted"
            except (KeyboardInterrupt, SystemExit):
                raise
            except BaseException as e:  # noqa: BLE001
                recovered = type(e).__name__
            out.append((delays, outcome, t1 - t0, n_tx, times, late_tx, recovered))

    H.run_virtual(go, net)
    for delays, outcome, dt, n_tx, times, late_tx, recovered in out:
        exp_n, A = _model(r, delays)
        key = ("retry", version, r, tuple(delays), bool(case.get("reconnect")))
        one = {**case, "patterns": [[grid.index(d) for d in delays]]}
        bad = False
        if not (1 <= n_tx <= r):
            ctx.violation("transmission-count-out-of-budget", f"{n_tx} transmissions with retries={r}", one, {"delays": delays})
            bad = True
        if n_tx != exp_n:
            mech = "retransmit-after-response" if n_tx > exp_n else "too-few-transmissions"
            ctx.violation(mech, f"{n_tx} transmissions, reference model says {exp_n} (delays {delays}, retries {r})", one, {"times": times})
            bad = True
        exp_times = [2.0 * i for i in range(exp_n)]
        if not bad and any(abs(a - b) > 1e-6 for a, b in zip(times, exp_times)):
            ctx.violation("transmission-instants", f"transmissions at {times}, expected {exp_times}", one)
            bad = True
        if A is not None:
            if outcome[0] != "ok":
                ctx.violation("timeout-before-budget-exhausted", f"outcome {outcome[0]} although a response arrived at {A}s < {2 * r}s", one, {"delays": delays})
                bad = True
            elif dt < A - 1e-6 or dt > A + 1.0:
                # the statement bounds retransmission, not the instant send() returns: what it does once the response is there
                # (return at once, collect trailing responses for a moment) is its business - within half the retransmission spacing
                ctx.violation("return-instant", f"send returned after {dt:.3f}s, response arrived at {A:.3f}s", one)
                bad = True
        else:
            if outcome[0] != "timeout":
                ctx.violation("no-timeout-after-budget", f"outcome {outcome} although no response arrived within {2 * r}s", one, {"delays": delays})
                bad = True
            elif abs(dt - 2.0 * r) > 1e-6:
                ctx.violation("timeout-instant", f"timeout raised after {dt:.3f}s, expected {2 * r}s", one)
                bad = True
        if late_tx:
            ctx.violation("retransmit-after-response", f"{late_tx} transmissions of the request after the exchange had ended", one)
            bad = True
        if recovered == "request-never-transmitted":
            ctx.violation("request-never-transmitted", f"the exchange following delays {delays} (retries {r}) returned frames although its request "
                          "was never transmitted (a late reply was waiting in the receive queue)", one)
            bad = True
        elif recovered is not True:
            ctx.violation("no-recovery-after-retry-exchange", f"exchange after delays {delays} (retries {r}) failed: {recovered}", one)
            bad = True
        ctx.count(key, kind="retry-model-bad" if bad else "retry-model-ok",
                  sample={"version": version, "retries": r, "delays": delays, "transmissions": n_tx, "outcome": outcome[0], "returned_after": round(dt, 3)})


# ---------------------------------------------------------------------------
def _arm(dev, st, phase, fault):
    """Configure the simulated device so that the next exchange meets (phase, fault)."""
    st.update(phase=phase, fault=fault, armed=True, cancel=False)
    if phase == "connect":
        if fault in CONNECT_ERRORS:
            dev.connect_script = [fault]
    if fault in ("cancel", "cancel-wedge", "slow-cancel"):
        st["cancel"] = True


def _faults(ctx, case):
    version = case["version"]
    level = case["level"]
    net = H.new_net()
    dev = _mkdev(net, version)
    st = {"phase": None, "fault": None, "armed": False, "cancel": False}
    garbage = bytes(range(7, 60))

    def fault_actions(conn, proto_level):
        f = st["fault"]
        if f in ("drop", "cancel"):
            return []
        if f == "cancel-wedge":
            return [(0, "wedge")]
        if f == "error-wedge":
            return [(0, v3.build_error(0) if version == 3 else b"\x5a\x5a" + bytes(30)), (0, "wedge")]
        if f == "garbage-wedge":
            return [(0, b"\x83\x70\x00\x10\x20\x03" + garbage[:18] if version == 3 else garbage), (0, "wedge")]
        if f == "wedge":
            return [(0, "wedge")]
        if f == "error":
            return [(0, v3.build_error(0) if version == 3 else b"\x5a\x5a" + bytes(30))]
        if f == "garbage":
            return [(0, garbage)]
        if f == "fin":
            return [(0, "fin")]
        if f == "rst":
            return [(0, "rst")]
        return None

    def on_exchange(conn, req, packets, meta):
        if st["armed"] and st["phase"] == "data":
            if st["fault"] in BENIGN:
                return [(0, p) for p in packets] + [(0, st["fault"][7:])]
            return fault_actions(conn, "data")
        st["genuine"] = st.get("genuine", 0) + 1          # the unit answered this request properly
        return None

    def on_handshake(conn, ok, reply, info):
        if st["armed"] and st["phase"] == "handshake":
            if st["fault"] == "slow-cancel":
                return [(0.45, reply)] if ok else None     # genuine reply, but it arrives after the caller gave up (cancel at 0.41 s)
            return fault_actions(conn, "hs")
        return None

    def on_accept(conn):
        if st["armed"] and st["phase"] == "connect":
            if st["fault"] == "accept-rst":
                return [(0, "rst")]
            if st["fault"] == "accept-fin":
                return [(0, "fin")]
        return None

    dev.on_exchange, dev.on_handshake, dev.on_accept = on_exchange, on_handshake, on_accept
    log = []

    async def close_quietly():
        for c in dev.conns:
            if not c.closed:
                c.emit([(0, "fin")])
        for _ in range(3):
            await asyncio.sleep(0)

    async def exchange(loop, ac, lan, q):
        """One exchange at the chosen level -> (outcome, online)."""
        async def call():
            if level == "device":
                await ac.refresh()
                return "returned"
            res = await lan.send(q)
            return "frames" if res else "empty"
        try:
            if st["cancel"]:
                task = asyncio.ensure_future(call())
                await asyncio.sleep(0.41 if st["phase"] == "handshake" else 0.37)
                task.cancel()
                out = await task
            else:
                out = await call()
        except (KeyboardInterrupt, SystemExit):
            raise
        except BaseException as e:  # noqa: BLE001
            out = "exc:" + type(e).__name__
        return out, ac.online

    async def go(loop):
        ac = AC(ip=dev.host, port=dev.port, device_id=dev.device_id)
        lan = ac._lan
        if case.get("lifetime") is not None:
            ac.set_max_connection_lifetime(case["lifetime"])
        if version == 3:
            await ac.authenticate(TOKEN, KEY)
        q = acframe.state_query(9)
        log.append(("initial",) + await exchange(loop, ac, lan, q))
        for phase, fault in case["seq"]:
            await asyncio.sleep(0.11)
            if phase == "idle":
                for c in dev.conns:
                    if not c.closed:
                        c.emit([(0, fault[5:])])
                await asyncio.sleep(0.05)
            if phase in ("connect", "handshake"):
                await close_quietly()          # force the next exchange to reconnect (and re-handshake on V3)
            _arm(dev, st, phase, fault)
            g0 = st.get("genuine", 0)
            res = await exchange(loop, ac, lan, q)
            log.append((f"{phase}/{fault}",) + res + (st.get("genuine", 0) - g0,))
            st.update(armed=False, cancel=False)
            dev.connect_script = []
        await asyncio.sleep(0.11)
        n_conns = len(dev.conns)
        log.append(("recovery",) + await exchange(loop, ac, lan, q))
        log.append(("conns-for-recovery", len(dev.conns) - n_conns, None))

    key = ("faults", version, level, case.get("lifetime"), tuple(map(tuple, case["seq"])))
    try:
        H.run_virtual(go, net)
    except Exception as e:  # noqa: BLE001
        ctx.count(key, kind="fault-sequence-aborted")
        ctx.violation(f"harness-or-loop/{type(e).__name__}", f"fault sequence aborted: {type(e).__name__}: {e}", case)
        return
    rec = [e for e in log if e[0] == "recovery"][0]
    init = log[0]
    good = ("returned", True) if level == "device" else ("frames",)
    if (init[1], init[2]) != ("returned", True) if level == "device" else init[1] != "frames":
        ctx.inconclusive_because(f"initial exchange failed in the harness: {init}")
        return
    ok = (rec[1] == "returned" and rec[2] is True) if level == "device" else rec[1] == "frames"
    fclass = "+".join(f"{p}/{f}" for p, f in case["seq"])
    if not ok:
        ctx.count(key, kind="recovery-failed")
        ctx.violation(f"no-recovery/{_last_fault(case)}", f"exchange after faults [{fclass}] failed: {rec[1:]} ({level} level, V{version})", case,
                      {"log": log})
    else:
        ctx.count(key, kind="recovery-ok", sample={"version": version, "level": level, "lifetime": case.get("lifetime"), "faults": fclass, "log": log})
    for e in log[1:-2]:
        if e[0].split("/")[-1] in BENIGN:
            ctx.bump("answered-then-closed-exchanges-checked")
            fine = (e[1] == "returned" and e[2] is True) if level == "device" else e[1] == "frames"
            if not fine:
                ctx.violation(f"answered-exchange-failed/{e[0].split('/')[-1]}", f"the unit answered and then closed the connection, but the exchange ended as {e[1:]} "
                              f"({level} level, V{version}, after [{fclass}])", case, {"log": log})
    if level == "device":
        for e in log[1:-2]:
            if e[0].split("/")[-1] in BENIGN:
                continue
            if e[1].startswith("exc:") and e[1] != "exc:CancelledError":
                ctx.violation(f"device-call-raises/{e[1][4:]}", f"refresh() raised {e[1][4:]} under fault {e[0]}", case, {"log": log})
            elif e[1] == "returned" and e[2] is True:
                if len(e) > 3 and e[3] > 0:
                    # the fault hit one attempt, a further attempt of the same call (reconnect, retransmission) was answered by the
                    # unit: the call legitimately succeeded
                    ctx.bump("fault-step-answered-after-all (online legitimately)")
                    continue
                ctx.violation("online-after-failed-exchange", f"refresh() under fault {e[0]} reports online=True", case, {"log": log})


def _second_loop(ctx, case):
    """asyncio.run() twice in one process with one device object: the first run ends with a failed exchange (no connection is
    left), the second one - a new event loop - finds the unit healthy."""
    version, level, ending = case["version"], case["level"], case["ending"]
    q = acframe.state_query(9)
    holder = {}

    def make(net, healthy):
        dev = _mkdev(net, version)
        if not healthy:
            if ending in ("refused", "hang"):
                dev.connect_default = "refuse" if ending == "refused" else "hang"
            else:
                def on_exchange(conn, req, packets, meta):
                    if ending == "silent":
                        return []
                    if ending == "error":
                        return [(0, v3.build_error(0) if version == 3 else b"\x5a\x5a" + bytes(30))]
                    return [(0, bytes(range(7, 60)))]
                dev.on_exchange = on_exchange
        return dev

    async def use(ac):
        try:
            if level == "device":
                await ac.refresh()
                return "returned", ac.online
            res = await ac._lan.send(q)
            return ("frames" if res else "empty"), None
        except (KeyboardInterrupt, SystemExit):
            raise
        except BaseException as e:  # noqa: BLE001
            return "exc:" + type(e).__name__, None

    net1 = H.new_net()
    dev1 = make(net1, False)

    async def run1(loop):
        ac = AC(ip=dev1.host, port=dev1.port, device_id=dev1.device_id)
        holder["ac"] = ac
        if version == 3:
            try:
                await ac.authenticate(TOKEN, KEY)
            except Exception:  # noqa: BLE001 - refused / hanging connects end here
                # the application keeps the credentials it was configured with; the next use authenticates
                pass
        return await use(ac)

    key = ("second-loop", version, ending, level)
    try:
        first, _ = H.run_virtual(run1, net1)
    except Exception as e:  # noqa: BLE001
        ctx.count(key, kind="fault-sequence-aborted")
        ctx.violation(f"harness-or-loop/{type(e).__name__}", f"first run aborted: {type(e).__name__}: {e}", case)
        return
    net2 = H.new_net()
    dev2 = make(net2, True)

    async def run2(loop):
        ac = holder["ac"]
        if version == 3 and ending in ("refused", "hang"):
            await ac.authenticate(TOKEN, KEY)
        return await use(ac)

    try:
        second, _ = H.run_virtual(run2, net2)
    except Exception as e:  # noqa: BLE001
        ctx.count(key, kind="recovery-failed")
        ctx.violation(f"no-recovery/second-event-loop", f"second run with the same object raised {type(e).__name__}: {e} (first run ended {ending}: {first})", case)
        return
    good = second == ("returned", True) if level == "device" else second[0] == "frames"
    ctx.count(key, kind="recovery-ok" if good else "recovery-failed")
    ctx.bump("second-event-loop-checked")
    if not good or not dev2.frames_seen:
        ctx.violation("no-recovery/second-event-loop", f"second asyncio.run() with the same object: {second}, {len(dev2.frames_seen)} requests reached the unit "
                      f"(first run ended {ending}: {first}; {level} level, V{version})", case)


def _last_fault(case):
    p, f = case["seq"][-1]
    return f"{p}-{f}"


# ---------------------------------------------------------------------------
def _cancel(ctx, case):
    version = case["version"]
    net = H.new_net()
    dev = _mkdev(net, version)
    st = {"on": False}

    def on_exchange(conn, req, packets, meta):
        if not st["on"]:
            return None
        d = case["reply_delay"]
        return [] if d is None else [(d, p) for p in packets]

    dev.on_exchange = on_exchange

    async def go(loop):
        lan = LAN(dev.host, dev.port, dev.device_id)
        if version == 3:
            await lan.authenticate(TOKEN, KEY)
        await lan.send(acframe.state_query(1))
        st["on"] = True
        task = asyncio.ensure_future(lan.send(acframe.state_query(2)))
        await asyncio.sleep(case["at"])
        task.cancel()
        try:
            r = await task
            first = "frames" if r else "empty"
        except (KeyboardInterrupt, SystemExit):
            raise
        except BaseException as e:  # noqa: BLE001
            first = type(e).__name__
        st["on"] = False
        await asyncio.sleep(0.07)
        try:
            r = await lan.send(acframe.state_query(3))
            second = "frames" if r else "empty"
        except (KeyboardInterrupt, SystemExit):
            raise
        except BaseException as e:  # noqa: BLE001
            second = type(e).__name__
        return first, second

    key = ("cancel", version, round(case["at"], 2), case["reply_delay"])
    (first, second), loop = H.run_virtual(go, net)
    if second != "frames":
        ctx.count(key, kind="cancel-recovery-failed")
        ctx.violation("no-recovery/cancel", f"exchange after a cancellation at +{case['at']:.2f}s (outcome {first}) failed: {second}", case)
    else:
        ctx.count(key, kind="recovery-ok", sample={"version": version, "cancel_at": round(case["at"], 2), "cancelled_outcome": first})


def finish(ctx):
    """Thorough tier, first shard only: simulation fidelity against real loopback sockets (informational; a divergence is
    reported as inconclusive, never as a violation)."""
    if ctx.tier != "thorough" or ctx.shard != 0 or ctx.replaying:
        return
    try:
        from ..selftest import loopback
        res = loopback.compare()
    except Exception as e:  # noqa: BLE001
        ctx.note("loopback_fidelity", f"skipped: {type(e).__name__}: {e}")
        return
    ctx.note("loopback_fidelity", [{k: r[k] for k in ("scenario", "same", "error", "wall_s")} for r in res])
    for r in res:
        if not r["same"] and not r["error"]:
            ctx.inconclusive_because(f"simulation diverges from real loopback sockets in scenario {r['scenario']}")
