"""C10 - the control command encodes exactly the requested state (vendor bit layout) and is injective."""
from __future__ import annotations

import itertools

from .. import gen
from .. import harness as H
from ..ref import acstate
from ..simdev import SimDevice

from msmart.device import AirConditioner as AC

ID = "C10"
LEVEL = "exploration"
RULE = ("a case = one requested state assigned through the public setters (one batch in five: eco/turbo/sleep/freeze protection through their deprecated alias setters; one in three: plain ints for the IntEnum-typed settings; half of the batches against a device that adds a report of its momentary state to every reply, property commands included) and sent with AirConditioner.apply() to a simulated V2 device; "
        "the 0x40 body the device received is decoded with the vendor-layout reference decoder (mv/ref/acstate.decode_0x40) and compared "
        "field by field (power, mode, setpoint, fan, swing, eco, turbo, sleep, unit, freeze protection, follow-me, purifier, humidity, "
        "aux mode, beep); a run-wide map body->state detects two distinct states with the same body. Exhaustive: every value of every field, "
        "62 setpoints x 6 modes, fan bytes 0..127, all flag combinations sharing a byte; plus a pairwise covering array and seeded random "
        "states. distinct = distinct requested state tuples; all non-trivial")
ASSUMPTIONS = ["setpoint alternate code is linear code+12 over the stated 13-43.5 C domain (vendor Lua reuses codes outside it)",
               "turbo is requested if byte 8 bit 5 or byte 10 bit 1 is set; follow-me position (byte 8 bit 7) taken from the 0xC0 report layout",
               "fan byte bit 7 is masked by the decoder (vendor sets it as a timer flag)"]
ANCHORS = ["command.py:SetStateCommand.tobytes", "device.py:AirConditioner.apply"]
MIN_NONTRIVIAL = {"quick": 3000, "thorough": 100000}
WORKERS = {"quick": 1, "thorough": 16}
EXHAUSTIVE = {t: ["every value of every settable field", "62 half-degree setpoints x 6 modes", "fan bytes 0..127",
                  "all 768 combinations of the flags sharing bytes 1, 8, 9, 10"] for t in ("quick", "thorough")}

BATCH = 64


def _states(ctx, rng):
    quick = ctx.tier == "quick"
    for f, st in gen.per_field_sweeps(rng):
        yield st
    for t in gen.SETPOINTS:
        for m in gen.MODES:
            st = gen.random_state(rng)
            st["target_temperature"], st["mode"] = t, m
            yield st
    for fan in range(128):
        st = gen.random_state(rng)
        st["fan"] = fan
        yield st
    for hum in range(101, 128):
        st = gen.random_state(rng)
        st["target_humidity"] = hum
        yield st
    for eco, pur, aux, slp, tur, fah, fol, beep, pwr in itertools.product([0, 1], [0, 1], [0, 1, 2], [0, 1], [0, 1], [0, 1], [0, 1], [0, 1], [0, 1]):
        st = gen.random_state(rng)
        st.update(eco=bool(eco), purifier=bool(pur), aux=aux, sleep=bool(slp), turbo=bool(tur), fahrenheit=bool(fah),
                  follow_me=bool(fol), beep=bool(beep), power=bool(pwr))
        yield st
    for row in gen.pairwise(rng, gen.PAIRWISE_DOMAINS):
        yield row
    for _ in range(2500 if quick else 4500000):
        yield gen.random_state(rng)


PROFILES = {
    None: None,
    # presets only: no custom fan speed, no eco/turbo/freeze, few modes
    "presets-only": [(0x0210, b"\x05"), (0x0214, b"\x02"), (0x0215, b"\x02"), (0x0212, b"\x00"), (0x021A, b"\x02"), (0x0213, b"\x00"),
                     (0x0225, bytes([34, 60, 34, 60, 34, 60, 0]))],
    "full": [(0x0210, b"\x01"), (0x0214, b"\x09"), (0x0215, b"\x01"), (0x0212, b"\x01"), (0x021A, b"\x01"), (0x0213, b"\x01"), (0x021F, b"\x02"),
             (0x0219, b"\x01"), (0x0043, b"\x01"), (0x0048, b"\x02"), (0x00E3, b"\x01"), (0x0009, b"\x01"), (0x000A, b"\x01"), (0x0039, b"\x01")],
}


def generate(ctx, rng):
    batch = []
    n = 0
    profiles = [None, None, "presets-only", "full"]
    for st in _states(ctx, rng):
        batch.append(st)
        if len(batch) == BATCH:
            yield ("batch", n), {"states": batch, "profile": profiles[n % 4], "pending": n % 3 == 1, "pseed": rng.getrandbits(32),
                                 "aliases": n % 5 == 2, "chatty": n % 4 in (1, 2), "ints": n % 3 == 2}
            n += 1
            batch = []
    if batch:
        yield ("batch", n), {"states": batch, "profile": None, "pending": False, "pseed": 1}
    # apply() issued while a refresh() of the same object is still waiting for its reply
    for j in range(60 if ctx.tier == "quick" else 20000):
        yield ("overlap", j), {"kind": "overlap", "start": gen.random_state(rng), "state": gen.random_state(rng),
                               "reply_delay": rng.choice([0.3, 0.5, 1.2]), "apply_at": rng.choice([0.05, 0.1, 0.25]),
                               "version": rng.choice([2, 3])}


    # two tasks of the application call apply() on the same object, the settings change in between (the first exchange is still
    # waiting for its reply)
    for j in range(60 if ctx.tier == "quick" else 20000):
        yield ("two-applies", j), {"kind": "overlap", "start": gen.random_state(rng), "state": gen.random_state(rng), "second": gen.random_state(rng),
                                   "reply_delay": 0.0, "apply_at": rng.choice([0.0, 0.0, 0.0005]), "version": rng.choice([2, 3])}


    # settings chosen by member NAME (what applications and the command line do): the command must carry the vendor's code for it
    yield ("names", 0), {"kind": "names"}


# vendor codes of the named members (reference Lua / README), independent of the library's own enum tables
NAMED = [("operational_mode", "OperationalMode", {"AUTO": 1, "COOL": 2, "DRY": 3, "HEAT": 4, "FAN_ONLY": 5, "SMART_DRY": 6}, "mode"),
         ("fan_speed", "FanSpeed", {"AUTO": 102, "MAX": 100, "HIGH": 80, "MEDIUM": 60, "LOW": 40, "SILENT": 20}, "fan"),
         ("swing_mode", "SwingMode", {"OFF": 0x0, "VERTICAL": 0xC, "HORIZONTAL": 0x3, "BOTH": 0xF}, "swing"),
         ("aux_mode", "AuxHeatMode", {"OFF": 0, "AUX_HEAT": 1, "AUX_ONLY": 2}, "aux")]


def _names(ctx, case):
    from ..simdev import ACModel
    net = H.new_net()
    model = ACModel()
    dev = SimDevice(net, version=2, device_id=0xABD, ac=model)
    out = []

    async def go(loop):
        ac = AC(ip=dev.host, port=dev.port, device_id=dev.device_id)
        await ac.refresh()
        for attr, cls, table, field in NAMED:
            enum = getattr(AC, cls)
            for name, code in table.items():
                try:
                    setattr(ac, attr, enum[name])
                except KeyError:
                    out.append((attr, name, code, "no-such-member"))
                    continue
                n0 = len(model.controls)
                await ac.apply()
                got = acstate.decode_0x40(model.controls[-1])[field] if len(model.controls) > n0 else None
                out.append((attr, name, code, got))

    try:
        H.run_virtual(go, net)
    except Exception as e:  # noqa: BLE001
        ctx.count(("names",), kind="names-raised")
        ctx.violation(f"names-raises/{type(e).__name__}", f"{type(e).__name__}: {e}", case)
        return
    for attr, name, code, got in out:
        ctx.count(("names", attr, name), kind="named-member-checked")
        if got != code:
            ctx.violation(f"field-{attr}", f"{attr} = {name} put {got!r} on the wire, the vendor's code for it is {code}", case)


_SEEN = {}


def setup(ctx):
    _SEEN.clear()


def run_case(ctx, case):
    if case.get("kind") == "overlap":
        return _overlap(ctx, case)
    if case.get("kind") == "names":
        return _names(ctx, case)
    import random
    states = case["states"]
    net = H.new_net()
    dev = SimDevice(net, version=2, device_id=0xABCDEF)
    profile = PROFILES.get(case.get("profile"))
    if profile is not None:
        dev.ac.caps_pages = [profile]
    pr = random.Random(case.get("pseed", 0))
    results = []
    if case.get("chatty"):
        # a unit that reports its state (as it is at that moment) along with every reply, also to property commands
        def on_exchange(conn, req, packets, meta):
            extra = dev.wrap(conn, dev.ac.state_frame(pr.choice([3, 4, 5])))
            return [(0, p) for p in (([extra] + list(packets)) if pr.random() < 0.5 else (list(packets) + [extra]))]
        dev.on_exchange = on_exchange

    def touch_properties(ac):
        """Other (property-protocol) settings changed since the last apply: they are not part of the control body."""
        k = pr.randrange(6)
        if k == 0:
            ac.rate_select = pr.choice(AC.RateSelect.list())
        elif k == 1:
            ac.ieco = pr.random() < 0.5
        elif k == 2:
            ac.vertical_swing_angle = pr.choice(AC.SwingAngle.list())
        elif k == 3:
            ac.horizontal_swing_angle = pr.choice(AC.SwingAngle.list())
        elif k == 4:
            ac.breezeless = pr.random() < 0.5
        else:
            ac.breeze_away = pr.random() < 0.5

    async def go(loop):
        ac = AC(ip=dev.host, port=dev.port, device_id=dev.device_id)
        if profile is not None:
            await ac.get_capabilities()
        for st in states:
            n0 = len(dev.ac.controls)
            gen.apply_to_ac(ac, st, aliases=bool(case.get("aliases")), ints=bool(case.get("ints")))
            if case.get("pending") and pr.random() < 0.6:
                touch_properties(ac)
            try:
                await ac.apply()
            except Exception as e:  # noqa: BLE001
                results.append((st, "raised", e))
                continue
            new = dev.ac.controls[n0:]
            results.append((st, "ok", new))

    H.run_virtual(go, net)
    for st, status, val in results:
        key = gen.state_key(st) + (case.get("profile"), bool(case.get("pending")), bool(case.get("aliases")), bool(case.get("chatty")), bool(case.get("ints")))
        ctx.count(key, kind="apply" + ("+" + case["profile"] if case.get("profile") else "") + ("+pending-props" if case.get("pending") else "")
                  + ("+alias-setters" if case.get("aliases") else "") + ("+int-values-for-enums" if case.get("ints") else "") + ("+chatty-device" if case.get("chatty") else ""),
                  sample=st if st["target_temperature"] > 30 else None)
        if status == "raised":
            ctx.violation("apply-raises", f"apply() raised {type(val).__name__}: {val}", {"states": [st]})
            continue
        if len(val) != 1:
            rej = dev.ac.rejected[-1:] if dev.ac.rejected else None
            ctx.violation("control-not-received", f"device accepted {len(val)} control commands for one apply()", {"states": [st]},
                          {"rejected": rej})
            continue
        body = val[0]
        got = acstate.decode_0x40(body)
        diffs = {f: (st[f], got[f]) for f in gen.FIELDS if got[f] != st[f]}
        if diffs:
            f0 = sorted(diffs)[0]
            ctx.violation(f"field-{f0}", f"control body decodes to a different state: {diffs}", {"states": [st]}, {"body": body, "diffs": diffs})
        if got.get("aux_both"):
            ctx.violation("field-aux", "both aux-heat bits set", {"states": [st]}, {"body": body})
        prev = _SEEN.setdefault(bytes(body), key[:len(gen.FIELDS)])
        if prev != key[:len(gen.FIELDS)]:
            ctx.violation("not-injective", "two distinct requested states produced the same command body", {"states": [st]},
                          {"body": body, "other_state": dict(zip(gen.FIELDS, prev))})


def _overlap(ctx, case):
    """refresh() is waiting for its (slow) reply when the user sets a new state and calls apply() on the same object."""
    import asyncio
    from ..simdev import ACModel
    from ..ref import acframe
    version = case["version"]
    token, key = bytes(range(64)), bytes(range(32))
    net = H.new_net()
    start = {**acstate.default_state(), **{k: v for k, v in case["start"].items() if k in acstate.FIELDS}}
    model = ACModel(start)
    dev = SimDevice(net, version=version, token=token, key=key, device_id=0xABC, ac=model)
    st = case["state"]
    slow = {"on": False}

    def on_exchange(conn, req, packets, meta):
        if slow["on"] and acframe.parse_command(req)["body"][0] == 0x41:
            slow["on"] = False
            return [(case["reply_delay"], p) for p in packets]
        return None

    dev.on_exchange = on_exchange

    async def go(loop):
        ac = AC(ip=dev.host, port=dev.port, device_id=dev.device_id)
        if version == 3:
            await ac.authenticate(token, key)
        await ac.refresh()
        if case.get("second"):
            gen.apply_to_ac(ac, st)
            n0 = len(model.controls)
            t = asyncio.ensure_future(ac.apply())
            await asyncio.sleep(case["apply_at"])
            gen.apply_to_ac(ac, case["second"])
            await ac.apply()
            await t
            return model.controls[n0:]
        slow["on"] = True
        t = asyncio.ensure_future(ac.refresh())
        await asyncio.sleep(case["apply_at"])
        gen.apply_to_ac(ac, st)
        n0 = len(model.controls)
        await ac.apply()
        await t
        return model.controls[n0:]

    k = ("overlap", version, gen.state_key(st), case["reply_delay"], case["apply_at"])
    try:
        controls, loop = H.run_virtual(go, net)
    except Exception as e:  # noqa: BLE001
        ctx.count(k, kind="overlap-raised")
        ctx.violation(f"overlap-raises/{type(e).__name__}", f"{type(e).__name__}: {e}", case)
        return
    if case.get("second"):
        ctx.count(k + (gen.state_key(case["second"]),), kind="apply-overlapping-apply")
        dec = [acstate.decode_0x40(c) for c in controls]
        def same(got, want):
            return all(got[f] == want[f] for f in gen.FIELDS)
        if len(dec) < 2 or not same(dec[0], st) or not same(dec[-1], case["second"]) or not all(same(d, st) or same(d, case["second"]) for d in dec):
            ctx.violation("control-not-received", f"two overlapping apply() calls with different settings put {len(dec)} control command(s) on the wire; "
                          f"first matches the first state: {bool(dec) and same(dec[0], st)}, last matches the second state: {bool(dec) and same(dec[-1], case['second'])}", case)
        return
    ctx.count(k, kind="apply-overlapping-refresh", sample={"version": version, "reply_delay": case["reply_delay"], "apply_at": case["apply_at"]})
    if len(controls) != 1:
        ctx.violation("control-not-received", f"{len(controls)} control commands reached the device for one apply() overlapping a refresh()", case)
        return
    got = acstate.decode_0x40(controls[0])
    diffs = {f: (st[f], got[f]) for f in gen.FIELDS if got[f] != st[f]}
    if diffs:
        ctx.violation("overlap-field-" + sorted(diffs)[0], f"apply() issued while a refresh() was in flight encoded {diffs}", case)
