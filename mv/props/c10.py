"""C10 - the control command encodes exactly the requested state (vendor bit layout) and is injective."""
from __future__ import annotations

import itertools

from .. import gen
from .. import harness as H
from ..ref import acstate
from ..simdev import SimDevice

from msmart.device import AirConditioner as AC

ID = "C10"
LEVEL = "exploration"
RULE = ("a case = one requested state assigned through the public setters and sent with AirConditioner.apply() to a simulated V2 device; "
        "the 0x40 body the device received is decoded with the vendor-layout reference decoder (mv/ref/acstate.decode_0x40) and compared "
        "field by field (power, mode, setpoint, fan, swing, eco, turbo, sleep, unit, freeze protection, follow-me, purifier, humidity, "
        "aux mode, beep); a run-wide map body->state detects two distinct states with the same body. Exhaustive: every value of every field, "
        "62 setpoints x 6 modes, fan bytes 0..127, all flag combinations sharing a byte; plus a pairwise covering array and seeded random "
        "states. distinct = distinct requested state tuples; all non-trivial")
ASSUMPTIONS = ["setpoint alternate code is linear code+12 over the stated 13-43.5 C domain (vendor Lua reuses codes outside it)",
               "turbo is requested if byte 8 bit 5 or byte 10 bit 1 is set; follow-me position (byte 8 bit 7) taken from the 0xC0 report layout",
               "fan byte bit 7 is masked by the decoder (vendor sets it as a timer flag)"]
ANCHORS = ["command.py:SetStateCommand.tobytes", "device.py:AirConditioner.apply"]
MIN_NONTRIVIAL = {"quick": 3000, "thorough": 100000}
WORKERS = {"quick": 1, "thorough": 16}
EXHAUSTIVE = {t: ["every value of every settable field", "62 half-degree setpoints x 6 modes", "fan bytes 0..127",
                  "all 768 combinations of the flags sharing bytes 1, 8, 9, 10"] for t in ("quick", "thorough")}

BATCH = 64


def _states(ctx, rng):
    quick = ctx.tier == "quick"
    for f, st in gen.per_field_sweeps(rng):
        yield st
    for t in gen.SETPOINTS:
        for m in gen.MODES:
            st = gen.random_state(rng)
            st["target_temperature"], st["mode"] = t, m
            yield st
    for fan in range(128):
        st = gen.random_state(rng)
        st["fan"] = fan
        yield st
    for hum in range(101, 128):
        st = gen.random_state(rng)
        st["target_humidity"] = hum
        yield st
    for eco, pur, aux, slp, tur, fah, fol, beep, pwr in itertools.product([0, 1], [0, 1], [0, 1, 2], [0, 1], [0, 1], [0, 1], [0, 1], [0, 1], [0, 1]):
        st = gen.random_state(rng)
        st.update(eco=bool(eco), purifier=bool(pur), aux=aux, sleep=bool(slp), turbo=bool(tur), fahrenheit=bool(fah),
                  follow_me=bool(fol), beep=bool(beep), power=bool(pwr))
        yield st
    for row in gen.pairwise(rng, gen.PAIRWISE_DOMAINS):
        yield row
    for _ in range(2500 if quick else 300000):
        yield gen.random_state(rng)


def generate(ctx, rng):
    batch = []
    n = 0
    for st in _states(ctx, rng):
        batch.append(st)
        if len(batch) == BATCH:
            yield ("batch", n), {"states": batch}
            n += 1
            batch = []
    if batch:
        yield ("batch", n), {"states": batch}


_SEEN = {}


def setup(ctx):
    _SEEN.clear()


def run_case(ctx, case):
    states = case["states"]
    net = H.new_net()
    dev = SimDevice(net, version=2, device_id=0xABCDEF)
    results = []

    async def go(loop):
        ac = AC(ip=dev.host, port=dev.port, device_id=dev.device_id)
        for st in states:
            n0 = len(dev.ac.controls)
            gen.apply_to_ac(ac, st)
            try:
                await ac.apply()
            except Exception as e:  # noqa: BLE001
                results.append((st, "raised", e))
                continue
            new = dev.ac.controls[n0:]
            results.append((st, "ok", new))

    H.run_virtual(go, net)
    for st, status, val in results:
        key = gen.state_key(st)
        ctx.count(key, kind="apply", sample=st if st["target_temperature"] > 30 else None)
        if status == "raised":
            ctx.violation("apply-raises", f"apply() raised {type(val).__name__}: {val}", {"states": [st]})
            continue
        if len(val) != 1:
            rej = dev.ac.rejected[-1:] if dev.ac.rejected else None
            ctx.violation("control-not-received", f"device accepted {len(val)} control commands for one apply()", {"states": [st]},
                          {"rejected": rej})
            continue
        body = val[0]
        got = acstate.decode_0x40(body)
        diffs = {f: (st[f], got[f]) for f in gen.FIELDS if got[f] != st[f]}
        if diffs:
            f0 = sorted(diffs)[0]
            ctx.violation(f"field-{f0}", f"control body decodes to a different state: {diffs}", {"states": [st]}, {"body": body, "diffs": diffs})
        if got.get("aux_both"):
            ctx.violation("field-aux", "both aux-heat bits set", {"states": [st]}, {"body": body})
        prev = _SEEN.setdefault(bytes(body), key)
        if prev != key:
            ctx.violation("not-injective", "two distinct requested states produced the same command body", {"states": [st]},
                          {"body": body, "other_state": dict(zip(gen.FIELDS, prev))})
