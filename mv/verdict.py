"""Verdict discipline: counting, violations, known findings, replay files, evidence."""
from __future__ import annotations

import json
import os
import time
_real_time = time.time          # captured before the virtual wall clock is installed (runtime/vloop.py)
import zlib

VERIF = os.path.dirname(os.path.dirname(os.path.abspath(__file__)))
EVIDENCE_DIR = os.path.join(VERIF, "evidence")
REPLAY_DIR = os.path.join(EVIDENCE_DIR, "replays")
KNOWN_FILE = os.path.join(VERIF, "known_findings.json")

MAX_REPLAYS_PER_MECHANISM = 3
MAX_SAMPLES = 6


def jsonable(x):
    if isinstance(x, (bytes, bytearray, memoryview)):
        return {"hex": bytes(x).hex()}
    if isinstance(x, dict):
        return {str(k): jsonable(v) for k, v in x.items()}
    if isinstance(x, (list, tuple, set, frozenset)):
        return [jsonable(v) for v in x]
    if isinstance(x, (str, int, float, bool)) or x is None:
        return x
    if isinstance(x, BaseException):
        return f"{type(x).__name__}: {x}"
    return repr(x)


def unjson(x):
    if isinstance(x, dict):
        if set(x.keys()) == {"hex"}:
            return bytes.fromhex(x["hex"])
        return {k: unjson(v) for k, v in x.items()}
    if isinstance(x, list):
        return [unjson(v) for v in x]
    return x


def load_known() -> dict:
    try:
        with open(KNOWN_FILE) as f:
            data = json.load(f)
    except FileNotFoundError:
        return {}
    out = {}
    for e in data.get("findings", []):
        out[(e["property"], e["mechanism"])] = e
    return out


class Ctx:
    """Per-run (or per-shard) accumulator handed to property modules."""

    def __init__(self, pid: str, level: str, tier: str, seed: int, shard: int = 0, nshards: int = 1,
                 replaying: bool = False) -> None:
        self.pid = pid
        self.level = level
        self.tier = tier
        self.seed = seed
        self.shard = shard
        self.nshards = nshards
        self.replaying = replaying
        self.t0 = _real_time()
        self.evaluations = 0
        self.nontrivial_keys = set()
        self.samples = []
        self.sample_kinds = set()
        self.hist = {}
        self.violations = []          # dicts: mechanism, what, case, detail (first few per mechanism)
        self.n_violations = 0
        self.viol_mech = {}
        self.known_hits = {}          # mechanism -> count
        self.inconclusive = []        # reasons
        self.notes = {}
        self.known = load_known()
        self.skipped = {}
        self.current_case = None
        self.debug_logging = False
        self.preamble = None
        self.harness_errors = []

    # ---- sharding ----
    def mine(self, key) -> bool:
        if self.nshards <= 1:
            return True
        return zlib.crc32(repr(key).encode()) % self.nshards == self.shard

    # ---- counting ----
    def count(self, key=None, nontrivial: bool = True, kind: str | None = None, sample=None) -> None:
        self.evaluations += 1
        if nontrivial and key is not None:
            self.nontrivial_keys.add(_h(key))
        if kind:
            self.hist[kind] = self.hist.get(kind, 0) + 1
        if sample is not None and len(self.samples) < MAX_SAMPLES and (kind not in self.sample_kinds):
            self.sample_kinds.add(kind)
            self.samples.append(jsonable(sample))

    def bump(self, name: str, n: int = 1) -> None:
        self.hist[name] = self.hist.get(name, 0) + n

    def skip(self, why: str) -> None:
        self.skipped[why] = self.skipped.get(why, 0) + 1

    def note(self, k: str, v) -> None:
        self.notes[k] = jsonable(v)

    # ---- verdicts ----
    def violation(self, mechanism: str, what: str, case=None, detail=None) -> None:
        case = case if case is not None else self.current_case
        if (self.pid, mechanism) in self.known:
            self.known_hits[mechanism] = self.known_hits.get(mechanism, 0) + 1
            return
        self.n_violations += 1
        self.viol_mech[mechanism] = self.viol_mech.get(mechanism, 0) + 1
        if self.viol_mech[mechanism] <= MAX_REPLAYS_PER_MECHANISM + 2:
            self.violations.append({"mechanism": mechanism, "what": what, "debug_logging": self.debug_logging, "preamble": self.preamble,
                                    "case": jsonable(case), "detail": jsonable(detail)})

    def inconclusive_because(self, reason: str) -> None:
        if reason not in self.inconclusive:
            self.inconclusive.append(reason)

    # ---- shard (de)serialisation ----
    def dump_partial(self) -> dict:
        return {
            "evaluations": self.evaluations,
            "nontrivial": len(self.nontrivial_keys),
            "samples": self.samples,
            "hist": self.hist,
            "violations": self.violations[:60],
            "n_violations": self.n_violations,
            "violation_mechanisms": self.viol_mech,
            "known_hits": self.known_hits,
            "inconclusive": self.inconclusive,
            "notes": self.notes,
            "skipped": self.skipped,
            "harness_errors": self.harness_errors[:5],
            "wall_s": _real_time() - self.t0,
        }


def _h(key) -> int:
    r = repr(key).encode()
    return zlib.crc32(r) | (zlib.adler32(r) << 32)


def merge_partials(parts: list[dict]) -> dict:
    out = {"evaluations": 0, "nontrivial": 0, "samples": [], "hist": {}, "violations": [], "n_violations": 0,
           "known_hits": {}, "inconclusive": [], "notes": {}, "skipped": {}, "harness_errors": [], "wall_s": 0.0}
    for p in parts:
        out["evaluations"] += p["evaluations"]
        out["nontrivial"] += p["nontrivial"]
        for s in p["samples"]:
            if len(out["samples"]) < MAX_SAMPLES:
                out["samples"].append(s)
        for k, v in p["hist"].items():
            out["hist"][k] = out["hist"].get(k, 0) + v
        out["violations"] += p["violations"]
        out["n_violations"] += p["n_violations"]
        for k, v in p.get("violation_mechanisms", {}).items():
            out.setdefault("violation_mechanisms", {})[k] = out.setdefault("violation_mechanisms", {}).get(k, 0) + v
        for k, v in p["known_hits"].items():
            out["known_hits"][k] = out["known_hits"].get(k, 0) + v
        for r in p["inconclusive"]:
            if r not in out["inconclusive"]:
                out["inconclusive"].append(r)
        for k, v in p["notes"].items():
            if isinstance(v, (int, float)) and not isinstance(v, bool) and isinstance(out["notes"].get(k, 0), (int, float)):
                out["notes"][k] = out["notes"].get(k, 0) + v
            else:
                out["notes"].setdefault(k, v)
        for k, v in p["skipped"].items():
            out["skipped"][k] = out["skipped"].get(k, 0) + v
        out["harness_errors"] += p["harness_errors"]
        out["wall_s"] = max(out["wall_s"], p["wall_s"])
    return out


def finalize(pid: str, level: str, tier: str, seed: int, merged: dict, meta: dict, wall_s: float,
             write_evidence: bool = True) -> int:
    """Print verdict lines, write replays + evidence, return the exit code."""
    known = load_known()
    os.makedirs(REPLAY_DIR, exist_ok=True)
    # stale replays of this property
    for fn in os.listdir(REPLAY_DIR):
        if fn.startswith(pid + "-"):
            try:
                os.remove(os.path.join(REPLAY_DIR, fn))
            except OSError:
                pass
    per_mech = {}
    printed = 0
    for v in merged["violations"]:
        m = v["mechanism"]
        per_mech[m] = per_mech.get(m, 0) + 1
        if per_mech[m] > MAX_REPLAYS_PER_MECHANISM:
            continue
        path = os.path.join(REPLAY_DIR, f"{pid}-{m.replace('/', '_')}-{per_mech[m]}.json")
        with open(path, "w") as f:
            json.dump({"property": pid, "tier": tier, "seed": seed,
                       "hashseed": os.environ.get("PYTHONHASHSEED"), **v}, f, indent=1)
        print(f"VIOLATION property={pid} replay={path}")
        print(f"  mechanism={m} what={v['what']}")
        printed += 1
    for m, n in sorted(merged["known_hits"].items()):
        e = known.get((pid, m), {})
        print(f"KNOWN-FINDING: property={pid} {m}: {e.get('what', '')} (observed {n}x this run)")
    # a listed finding that the run was able to observe but did not -> say so (informational)
    for reason in merged["inconclusive"]:
        print(f"INCONCLUSIVE property={pid} reason={reason}")
    for he in merged["harness_errors"][:3]:
        print(f"INCONCLUSIVE property={pid} reason=harness-error {he[:300]}")

    n_viol = merged["n_violations"]
    coverage = {
        "evaluations": merged["evaluations"],
        "distinct_nontrivial": merged["nontrivial"],
        "rule": meta.get("rule", ""),
        "samples": merged["samples"] or [{"note": "no sample recorded"}],
        "outcome_histogram": merged["hist"],
        "skipped": merged["skipped"],
        "known_finding_hits": merged["known_hits"],
        "violation_mechanisms": merged.get("violation_mechanisms", {}),
        "observations": merged["notes"],
        "reach": meta.get("reach", {}),
        "exhaustive_parts": meta.get("exhaustive_parts", []),
        "workers": meta.get("workers", 1),
    }
    if meta.get("extra"):
        coverage.update(meta["extra"])
    ev = {
        "property_id": pid,
        "tier": tier,
        "seed": int(seed),
        "level": level,
        "coverage": coverage,
        "assumptions": meta.get("assumptions", []),
        "wall_s": round(wall_s, 3),
        "violations": n_viol,
        "verdict": "violated" if n_viol else ("inconclusive" if (merged["inconclusive"] or merged["harness_errors"]) else "held-on-observed"),
        "inconclusive_reasons": merged["inconclusive"],
    }
    if write_evidence:
        os.makedirs(EVIDENCE_DIR, exist_ok=True)
        tmp = os.path.join(EVIDENCE_DIR, f".{pid}.json.tmp")
        with open(tmp, "w") as f:
            json.dump(ev, f, indent=1)
        os.replace(tmp, os.path.join(EVIDENCE_DIR, f"{pid}.json"))
    print(f"{pid} tier={tier} seed={seed} evaluations={merged['evaluations']} distinct_nontrivial={merged['nontrivial']} "
          f"violations={n_viol} known={sum(merged['known_hits'].values())} wall={wall_s:.1f}s verdict={ev['verdict']}")
    if n_viol:
        return 1
    if merged["inconclusive"] or merged["harness_errors"]:
        return 2
    return 0
