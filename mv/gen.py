"""Generators shared by several properties: settable AC states, pairwise covering arrays, helpers."""
from __future__ import annotations

import itertools

from .ref import acstate

SETPOINTS = [13.0 + 0.5 * i for i in range(62)]          # 13.0 .. 43.5
MODES = [1, 2, 3, 4, 5, 6]
SWINGS = [0x0, 0xC, 0x3, 0xF]
FANS = list(range(1, 103))
FAN_ENUM = [102, 100, 80, 60, 40, 20]
BOOL_FIELDS = ["power", "eco", "turbo", "sleep", "fahrenheit", "freeze_protection", "follow_me", "purifier", "beep"]
AUX = [0, 1, 2]

DOMAINS = {
    "power": [False, True], "mode": MODES, "target_temperature": SETPOINTS, "fan": FANS, "swing": SWINGS,
    "eco": [False, True], "turbo": [False, True], "sleep": [False, True], "fahrenheit": [False, True],
    "freeze_protection": [False, True], "follow_me": [False, True], "purifier": [False, True],
    "target_humidity": list(range(0, 101)), "aux": AUX, "beep": [False, True],
}
FIELDS = list(DOMAINS)


def base_state() -> dict:
    return {"power": True, "mode": 2, "target_temperature": 22.0, "fan": 60, "swing": 0, "eco": False, "turbo": False,
            "sleep": False, "fahrenheit": False, "freeze_protection": False, "follow_me": False, "purifier": False,
            "target_humidity": 45, "aux": 0, "beep": False}


def random_state(rng) -> dict:
    return {f: rng.choice(DOMAINS[f]) for f in FIELDS}


def state_key(st: dict) -> tuple:
    return tuple(st[f] for f in FIELDS)


def apply_to_ac(ac, st: dict, aliases: bool = False, ints: bool = False) -> None:
    """Assign a state through the public setters of AirConditioner (``aliases``: eco/turbo/sleep/freeze protection through
    their deprecated alias names eco_mode/turbo_mode/sleep_mode/freeze_protection_mode, which remain part of the interface)."""
    from msmart.device import AirConditioner as AC
    if ints:
        # the enumerated settings are IntEnums: a plain int of the same value is an equally valid way to assign them
        apply_to_ac(ac, st, aliases=aliases)
        ac.operational_mode = int(st["mode"])
        ac.fan_speed = int(st["fan"])
        ac.swing_mode = int(st["swing"])
        ac.aux_mode = int(st["aux"])
        return
    if aliases:
        import warnings
        apply_to_ac(ac, st, aliases=False)
        with warnings.catch_warnings():
            warnings.simplefilter("ignore")
            # first park the opposite value through the primary name, so that the alias really has to do the work
            ac.eco, ac.turbo, ac.sleep, ac.freeze_protection = not st["eco"], not st["turbo"], not st["sleep"], not st["freeze_protection"]
            ac.eco_mode = st["eco"]
            ac.turbo_mode = st["turbo"]
            ac.sleep_mode = st["sleep"]
            ac.freeze_protection_mode = st["freeze_protection"]
        return
    ac.power_state = st["power"]
    ac.operational_mode = AC.OperationalMode(st["mode"])
    ac.target_temperature = st["target_temperature"]
    fan = st["fan"]
    try:
        ac.fan_speed = AC.FanSpeed(fan)
    except ValueError:
        ac.fan_speed = fan
    ac.swing_mode = AC.SwingMode(st["swing"])
    ac.eco = st["eco"]
    ac.turbo = st["turbo"]
    ac.sleep = st["sleep"]
    ac.fahrenheit = st["fahrenheit"]
    ac.freeze_protection = st["freeze_protection"]
    ac.follow_me = st["follow_me"]
    ac.purifier = st["purifier"]
    ac.target_humidity = st["target_humidity"]
    ac.aux_mode = AC.AuxHeatMode(st["aux"])
    if "beep" in st:
        ac.beep = st["beep"]


def per_field_sweeps(rng, others="random"):
    """For every field, every value, others varied."""
    for f in FIELDS:
        for v in DOMAINS[f]:
            st = random_state(rng) if others == "random" else base_state()
            st[f] = v
            yield f, st


def pairwise(rng, domains: dict | None = None, tries: int = 40):
    """Greedy pairwise covering array over ``domains`` (field -> list of values)."""
    domains = domains or DOMAINS
    fields = list(domains)
    uncovered = set()
    for a, b in itertools.combinations(range(len(fields)), 2):
        for va in domains[fields[a]]:
            for vb in domains[fields[b]]:
                uncovered.add((a, va, b, vb))
    rows = []
    while uncovered:
        best, best_gain = None, -1
        # seed candidate with one uncovered pair, complete randomly, keep the best of `tries`
        for _ in range(tries):
            a, va, b, vb = next(iter(uncovered)) if _ == 0 else rng.choice(tuple(itertools.islice(uncovered, 50)))
            row = [rng.choice(domains[f]) for f in fields]
            row[a], row[b] = va, vb
            gain = sum(1 for (i, j) in itertools.combinations(range(len(fields)), 2) if (i, row[i], j, row[j]) in uncovered)
            if gain > best_gain:
                best, best_gain = row, gain
        for (i, j) in itertools.combinations(range(len(fields)), 2):
            uncovered.discard((i, best[i], j, best[j]))
        rows.append(dict(zip(fields, best)))
    return rows


def expected_device_state(st: dict) -> dict:
    """What the device should hold after ``st`` was applied (reference field names)."""
    return {k: st[k] for k in acstate.FIELDS}


PAIRWISE_DOMAINS = {
    **{f: DOMAINS[f] for f in FIELDS},
    "target_temperature": [13.0, 16.5, 17.0, 23.5, 30.0, 30.5, 31.0, 38.5, 43.5],
    "fan": [1, 20, 40, 60, 80, 100, 101, 102],
    "target_humidity": [0, 35, 64, 100],
}
