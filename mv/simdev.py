"""Simulated Midea air conditioner: V2 / V3 TCP server + AC state machine.

Built only from the reference models in ``mv.ref`` (no msmart code).  The device
records every byte it receives per connection with its virtual timestamp and a
parsed view of it (``dev.events``) - this wire-boundary log is the history most
oracles read.
"""
from __future__ import annotations

import random
from typing import Callable, Optional

from .ref import acframe, acprops, acstate, v2, v3
from .ref.prim import RefError


class ACModel:
    """Application-level behaviour of the appliance."""

    def __init__(self, state: dict | None = None) -> None:
        self.state = acstate.default_state()
        if state:
            self.state.update(state)
        self.version = 0                 # bumped on every applied control
        self.props = {}                  # id -> report value bytes
        self.caps_pages = [[]]           # list of pages, each a list of (id, value bytes)
        self.energy = None               # (total4, current4, power3) raw bytes or None
        self.humidity = None             # int or None
        self.report_length = 23          # 0xC0 body length
        self.report_check = "crc"
        self.commands = []               # (kind, parsed) every accepted command, in order
        self.rejected = []               # frames a spec-conforming parser refuses
        self.controls = []               # raw 0x40 bodies
        self.prop_sets = []              # parsed 0xB0 sets
        self.prop_queries = []
        self.breeze_exclusive = True
        self.prop_refuse = set()         # property ids whose writes the unit refuses (result byte 0x11, value unchanged)
        self.state_overrides = None      # raw byte overrides for the C0 body
        self.raw_state_body = None       # if set, reported verbatim as the 0xC0 body
        self.header_fill = bytes(5)      # frame header bytes 3..7 of rendered state frames
        self.msg_counter = 0

    # -- rendering --
    def state_frame(self, frame_type: int = acframe.FT_QUERY) -> bytes:
        if self.raw_state_body is not None:
            body = bytes(self.raw_state_body)
        else:
            body = acstate.encode_0xC0(self.state, self.report_length, self.state_overrides)
        return acframe.build(body, frame_type, check=self.report_check, header_fill=self.header_fill)

    def caps_frame(self, page: int) -> bytes:
        page = min(page, len(self.caps_pages) - 1)
        more = page + 1 < len(self.caps_pages)
        return acframe.build(acprops.build_caps(self.caps_pages[page], more), acframe.FT_QUERY)

    # -- dispatch --
    def handle(self, frame: bytes) -> list[bytes]:
        try:
            cmd = acframe.parse_command(frame)
        except RefError as e:
            self.rejected.append((bytes(frame), str(e)))
            return []
        body = cmd["body"]
        ft = cmd["frame_type"]
        if not body:
            self.rejected.append((bytes(frame), "empty body"))
            return []
        kind = body[0]
        try:
            if kind == 0x40 and ft == acframe.FT_CONTROL:
                return self._control(body, cmd)
            if kind == 0x41 and ft == acframe.FT_QUERY:
                return self._query(body, cmd)
            if kind == 0xB5 and ft == acframe.FT_QUERY:
                page = 1 if (len(body) > 2 and body[2] == 0x01) else 0
                self.commands.append(("caps", page, cmd))
                return [self.caps_frame(page)]
            if kind == 0xB1 and ft == acframe.FT_QUERY:
                ids = acprops.parse_query(body)
                self.prop_queries.append(ids)
                self.commands.append(("prop_query", ids, cmd))
                recs = []
                for pid in ids:
                    if pid in self.props:
                        recs.append((pid, 0x00, self.props[pid]))
                    else:
                        recs.append((pid, 0x10, b""))
                return [acframe.build(acprops.build_report(0xB1, recs), acframe.FT_QUERY)]
            if kind == 0xB0 and ft == acframe.FT_CONTROL:
                sets = acprops.parse_set(body)
                self.prop_sets.append(sets)
                self.commands.append(("prop_set", sets, cmd))
                recs = []
                for pid, value in sets:
                    rep = acprops.set_value_to_report(pid, value)
                    if pid == acprops.P_BUZZER:
                        recs.append((pid, 0x00, rep))
                        continue
                    if pid in self.prop_refuse:
                        recs.append((pid, 0x11, self.props.get(pid, b"\x00")))      # "execution failed": the unit keeps its value
                        continue
                    self.props[pid] = rep
                    if self.breeze_exclusive:
                        if pid == acprops.P_BREEZE_AWAY and rep == b"\x02" and acprops.P_BREEZELESS in self.props:
                            self.props[acprops.P_BREEZELESS] = b"\x00"
                        if pid == acprops.P_BREEZELESS and rep == b"\x01" and acprops.P_BREEZE_AWAY in self.props:
                            self.props[acprops.P_BREEZE_AWAY] = b"\x01"
                    recs.append((pid, 0x00, rep))
                self.version += 1
                return [acframe.build(acprops.build_report(0xB0, recs), acframe.FT_CONTROL)]
        except RefError as e:
            self.rejected.append((bytes(frame), str(e)))
            return []
        self.rejected.append((bytes(frame), f"unknown command 0x{kind:02X} type {ft}"))
        return []

    def _control(self, body, cmd):
        st = acstate.decode_0x40(body)
        self.controls.append(bytes(body))
        self.commands.append(("control", st, cmd))
        for k in acstate.FIELDS:
            self.state[k] = st[k]
        self.version += 1
        return [self.state_frame(acframe.FT_CONTROL)]

    def _query(self, body, cmd):
        if len(body) < 8:
            raise RefError("0x41 body too short")
        if body[1] == 0x81:
            self.commands.append(("get_state", None, cmd))
            return [self.state_frame(acframe.FT_QUERY)]
        if body[1] == 0x21 and body[2] == 0x01:
            group = body[3] & 0x0F
            if group == 4:
                self.commands.append(("get_energy", None, cmd))
                if self.energy is None:
                    return []
                b = bytearray(21)
                b[0:4] = bytes([0xC1, 0x21, 0x01, 0x44])
                b[4:8] = self.energy[0]
                b[12:16] = self.energy[1]
                b[16:19] = self.energy[2]
                return [acframe.build(bytes(b), acframe.FT_QUERY)]
            if group == 5:
                self.commands.append(("get_humidity", None, cmd))
                if self.humidity is None:
                    return []
                b = bytearray(21)
                b[0:4] = bytes([0xC1, 0x21, 0x01, 0x45])
                b[4] = self.humidity
                return [acframe.build(bytes(b), acframe.FT_QUERY)]
            raise RefError("unknown group query")
        if (body[1] & 0xBF) == 0x02 and body[4] == 0x02 and body[6] == 0x02:
            self.commands.append(("toggle_display", bool(body[1] & 0x40), cmd))
            self.state["display_on"] = not self.state["display_on"]
            self.version += 1
            return [self.state_frame(acframe.FT_QUERY)]
        raise RefError("unknown 0x41 variant")


class DevConn:
    """Server side of one TCP connection."""

    def __init__(self, dev, transport) -> None:
        self.dev = dev
        self.t = transport
        self.id = transport.conn_id
        self.buf = b""
        self.skey = None
        self.key_gen = 0
        self.resp_counter = 0
        self.wedged = False
        self.closed = False
        self.rx_packets = 0
        self._fifo_t = -1.0
        self._fifo_batch = None

    @property
    def loop(self):
        return self.t.loop

    def now(self) -> float:
        return self.t.loop.time()

    def on_client_close(self) -> None:
        self.closed = True
        self.dev.events.append((self.now(), "conn", self.id, "client_closed"))

    def on_data(self, data: bytes) -> None:
        dev = self.dev
        dev.events.append((self.now(), "rx", self.id, bytes(data)))
        if getattr(self, "hung_up", False):
            # the device has closed this connection: a real stack answers late data with a reset and processes nothing
            dev.events.append((self.now(), "conn", self.id, "data-after-close"))
            try:
                self.t.peer_rst()
            except Exception:  # noqa: BLE001
                pass
            return
        if self.wedged:
            return
        self.buf += data
        if dev.version == 3:
            lead = self.buf.find(b"\x83\x70")
            stray = self.buf if lead < 0 else self.buf[:lead]
            if stray and not (lead < 0 and stray.endswith(b"\x83")):
                # bytes that are not part of any V3 packet (e.g. a plain V2 packet written to a V3 device)
                dev.events.append((self.now(), "pkt", self.id, "junk-preauth" if self.skey is None else "junk", bytes(stray)))
                if self.skey is None:
                    dev.preauth_junk.append((self.now(), self.id, bytes(stray)))
            pkts, self.buf = v3.split_stream(self.buf)
            for p in pkts:
                self.rx_packets += 1
                dev.on_v3_packet(self, p)
        else:
            pkts, self.buf = v2.split_stream(self.buf)
            if not pkts and self.buf and not self.buf.startswith(b"\x5a"):
                dev.events.append((self.now(), "pkt", self.id, "junk", bytes(self.buf)))
                self.buf = b""
            for p in pkts:
                self.rx_packets += 1
                dev.on_v2_packet(self, p)

    # ---- output ----
    def emit(self, actions) -> None:
        """actions: list of (delay, what) with what = bytes | 'fin' | 'rst' | 'wedge'.
        Actions with equal delay are executed in list order within one callback."""
        groups = {}
        for delay, what in actions:
            groups.setdefault(float(delay), []).append(what)
        now = self.now()
        last_when = now
        for delay in sorted(groups):
            items = groups[delay]
            last_when = max(last_when, now + max(delay, 0.0), self._fifo_t if self.dev.fifo else 0.0)
            if self.dev.fifo:
                # TCP never reorders: a later emission may not overtake an earlier, delayed one
                when = now + max(delay, 0.0)
                if when <= self._fifo_t and self._fifo_batch is not None and self.dev.coalesce:
                    # bytes queued behind delayed bytes arrive together with them (one segment)
                    self._fifo_batch.extend(items)
                    continue
                if when <= self._fifo_t:
                    when = self._fifo_t + 1e-7
                self._fifo_t = when
                self._fifo_batch = list(items)
                if when <= now:
                    self.loop.call_soon(self._run_batch, self._fifo_batch)
                else:
                    self.loop.call_at(when, self._run_batch, self._fifo_batch)
            elif delay <= 0:
                self.loop.call_soon(self._run_items, items)
            else:
                self.loop.call_later(delay, self._run_items, items)
        return last_when

    def _run_batch(self, batch) -> None:
        if self._fifo_batch is batch:
            self._fifo_batch = None
        items = list(batch)
        if self.dev.coalesce:
            merged = []
            for it in items:
                if isinstance(it, (bytes, bytearray)) and merged and isinstance(merged[-1], (bytes, bytearray)):
                    merged[-1] = bytes(merged[-1]) + bytes(it)
                    self.dev.events.append((self.now(), "coalesced", self.id, len(merged[-1])))
                else:
                    merged.append(it)
            items = merged
        self._run_items(items)

    def _run_items(self, items) -> None:
        for what in items:
            if what == "fin":
                self.hung_up = True
                self.t.peer_fin()
            elif what == "rst":
                self.hung_up = True
                self.t.peer_rst()
            elif what == "wedge":
                self.wedged = True
            else:
                self.dev.events.append((self.now(), "tx", self.id, bytes(what)))
                self.t.peer_send(what)


class SimDevice:
    """A simulated appliance listening on (host, port)."""

    def __init__(self, net, host: str = "10.0.0.2", port: int = 6444, *, version: int = 2,
                 device_id: int = 0x1234, token: bytes | None = None, key: bytes | None = None,
                 ac: ACModel | None = None, seed: int = 0) -> None:
        self.net = net
        self.host = host
        self.port = port
        self.version = version
        self.device_id = device_id
        self.token = token
        self.key = key
        self.ac = ac or ACModel()
        self.rng = random.Random(seed)
        self.events = []            # device-side log
        self.conns = []
        self.connect_script = []    # per-attempt: 'accept' | 'refuse' | 'hang' | 'unreachable' | 'netunreach' | 'gaierror' | 'multi-refused' | 'etimedout'
        self.connect_default = "accept"
        self.fifo = False           # True: per-connection FIFO delivery even with unequal delays (network latency model)
        self.coalesce = False       # with fifo: bytes that catch up with delayed bytes are delivered in the same segment
        self.push_reports = False   # True: every state change is pushed as an unsolicited report to the other open connections
        self.push_latency = None    # callable() -> seconds, latency of pushed reports
        # hooks (all optional)
        self.on_exchange: Optional[Callable] = None   # (conn, req_frame, resp_packets:list[bytes]) -> actions | None
        self.on_handshake: Optional[Callable] = None  # (conn, token_ok, default_reply:bytes, info) -> actions | None
        self.on_accept: Optional[Callable] = None     # (conn) -> actions | None, run when a connection is accepted
        self.nonce_source: Optional[Callable] = None
        self.accept_token: Optional[Callable] = None  # (token) -> bool
        self.silent_on_bad_token = False
        self.frames_seen = []       # (t, conn_id, frame) every application frame unwrapped
        self.version_log = []       # (t, version, state copy) whenever a command changed the appliance state
        self.pushes = []            # unsolicited reports pushed on state changes (render / delivery instants)
        self.deliveries = []        # solicited responses: render / (last) delivery instants per exchange
        self.handshakes = []        # (t, conn_id, token, accepted, counter)
        self.data_packets = []      # (t, conn_id, counter, key_gen, ok, frame)
        self.preauth_junk = []      # packets other than handshake before auth on that conn
        net.listen(host, port, self)

    # ---- acceptor protocol used by SimNet ----
    def connect_policy(self, host, port):
        mode = self.connect_script.pop(0) if self.connect_script else self.connect_default
        self.events.append((self.net.loop.time() if self.net.loop else 0.0, "connect", None, mode))
        if mode == "refuse":
            return self.net.REFUSE
        if mode == "hang":
            return self.net.HANG
        # other ways the operating system reports a failed connect (all OSError, not all ConnectionError)
        if mode == "unreachable":
            return OSError(113, f"Connect call failed ({host!r}, {port})")             # EHOSTUNREACH
        if mode == "netunreach":
            return OSError(101, "Network is unreachable")
        if mode == "gaierror":
            import socket
            return socket.gaierror(-2, "Name or service not known")
        if mode == "multi-refused":
            return OSError(f"Multiple exceptions: [Errno 111] Connect call failed ({host!r}, {port}), [Errno 111] Connect call failed ('10.0.0.99', {port})")
        if mode == "etimedout":
            return TimeoutError(110, "Connection timed out")
        if isinstance(mode, BaseException):
            return mode
        return None

    def __call__(self, transport):
        c = DevConn(self, transport)
        self.conns.append(c)
        self.events.append((transport.loop.time(), "conn", c.id, "open"))
        if self.on_accept is not None:
            actions = self.on_accept(c)
            if actions:
                c.emit(actions)
        return c

    # ---- wrapping ----
    def wrap(self, conn, frame: bytes) -> bytes:
        pkt = v2.build(frame, self.device_id, msg_id=conn.resp_counter.to_bytes(4, "little"))
        if self.version == 3:
            pkt = v3.build_encrypted(conn.skey, pkt, conn.resp_counter & 0xFFFF, v3.T_ENC_RESP,
                                     pad_bytes=self.rng.randbytes(v3.pad_len(len(pkt))))
        conn.resp_counter += 1
        return pkt

    def _respond(self, conn, frame: bytes, meta: dict) -> None:
        self.frames_seen.append((conn.now(), conn.id, bytes(frame)))
        v0 = self.ac.version
        resp_frames = self.ac.handle(frame)
        if self.ac.version != v0:
            self.version_log.append((conn.now(), self.ac.version, dict(self.ac.state)))
            if self.push_reports:
                for other in self.conns:
                    if other is conn or other.closed or other.wedged:
                        continue
                    if self.version == 3 and other.skey is None:
                        continue
                    lat = self.push_latency() if self.push_latency else 0.0
                    t_deliver = other.emit([(lat, self.wrap(other, self.ac.state_frame(acframe.FT_NOTIFY)))])
                    self.pushes.append({"t_render": conn.now(), "t_deliver": t_deliver, "conn": other.id, "state": dict(self.ac.state)})
        packets = [self.wrap(conn, f) for f in resp_frames]
        actions = None
        if self.on_exchange is not None:
            actions = self.on_exchange(conn, frame, packets, meta)
        if actions is None:
            actions = [(0, p) for p in packets]
        t_deliver = conn.emit(actions)
        if actions:
            self.deliveries.append({"t_render": conn.now(), "t_deliver": t_deliver, "conn": conn.id, "state": dict(self.ac.state)})

    # ---- V2 ----
    def on_v2_packet(self, conn, pkt: bytes) -> None:
        try:
            info = v2.parse(pkt)
        except RefError as e:
            self.events.append((conn.now(), "pkt", conn.id, "bad_v2", str(e), bytes(pkt)))
            return
        self.events.append((conn.now(), "pkt", conn.id, "data", info["frame"]))
        self._respond(conn, info["frame"], {"v2": info, "raw": bytes(pkt)})

    # ---- V3 ----
    def on_v3_packet(self, conn, pkt: bytes) -> None:
        now = conn.now()
        ptype = pkt[5] & 0xF if len(pkt) >= 6 else -1
        if ptype == v3.T_HS_REQ:
            try:
                hs = v3.parse_handshake_request(pkt)
            except RefError as e:
                self.events.append((now, "pkt", conn.id, "bad_hs", str(e), bytes(pkt)))
                return
            ok = (self.accept_token(hs["token"]) if self.accept_token else hs["token"] == self.token)
            self.handshakes.append((now, conn.id, hs["token"], ok, hs["counter"]))
            self.events.append((now, "pkt", conn.id, "hs-req", hs["token"], hs["counter"], ok))
            info = {"token": hs["token"], "counter": hs["counter"]}
            if ok:
                nonce = self.nonce_source() if self.nonce_source else self.rng.randbytes(32)
                reply = v3.build_handshake_response(v3.handshake_proof(self.key, nonce), hs["counter"])
                new_key = v3.session_key(self.key, nonce)
                info.update(nonce=nonce, skey=new_key)
            else:
                reply = v3.build_error(hs["counter"])
                new_key = None
            actions = None
            if self.on_handshake is not None:
                actions = self.on_handshake(conn, ok, reply, info)
            if ok and not info.get("no_key_change"):
                conn.skey = new_key
                conn.key_gen += 1
                info["key_gen"] = conn.key_gen
            if actions is None:
                actions = [] if (not ok and self.silent_on_bad_token) else [(0, reply)]
            conn.emit(actions)
            return
        if conn.skey is None:
            self.preauth_junk.append((now, conn.id, bytes(pkt)))
            self.events.append((now, "pkt", conn.id, "junk-preauth", bytes(pkt)))
            conn.emit([(0, v3.build_error(0))])
            return
        try:
            d = v3.parse_encrypted(conn.skey, pkt, v3.T_ENC_REQ)
            inner = v2.parse(d["payload"])
        except RefError as e:
            self.data_packets.append((now, conn.id, None, conn.key_gen, False, str(e)))
            self.events.append((now, "pkt", conn.id, "bad_data", str(e), bytes(pkt)))
            conn.emit([(0, v3.build_error(0))])
            return
        self.data_packets.append((now, conn.id, d["counter"], conn.key_gen, True, inner["frame"]))
        self.events.append((now, "pkt", conn.id, "data", inner["frame"], d["counter"], conn.key_gen))
        self._respond(conn, inner["frame"], {"v3": d, "v2": inner, "raw": bytes(pkt)})


class SimHost:
    """A UDP discovery responder at ``ip`` listening on ``port`` (6445 or 20086).

    It answers a datagram only if it is an acceptable probe (see ref.discovery.probe_acceptable), addressed to its
    ip or to the broadcast address (the latter only if the sender enabled SO_BROADCAST).  ``replies`` is a list of
    (delay, source_port, bytes) sent for the FIRST acceptable probe only (``answer_every`` = True: for every probe).
    """

    def __init__(self, net, ip: str, port: int = 6445, replies=None, answer_every: bool = False, names=(), lose_first: int = 0) -> None:
        from .ref import discovery
        self._disc = discovery
        self.net = net
        self.ip = ip
        self.port = port
        self.replies = list(replies or [])
        self.answer_every = answer_every
        self.names = set(names)      # host names that resolve to this host
        self.lose_first = lose_first  # the first k acceptable probes never reach the host (UDP loss)
        self.probes_ok = 0
        self.probes_rejected = []
        self.answered = False
        net.udp_hosts.append(self)

    def on_datagram(self, net, transport, data, addr) -> None:
        import socket
        if not addr:
            return
        ip, port = addr[0], addr[1]
        if port != self.port:
            return
        if ip == self._disc.BROADCAST:
            if (socket.SOL_SOCKET, socket.SO_BROADCAST, 1) not in transport.sock.options:
                self.probes_rejected.append("broadcast without SO_BROADCAST")
                return
        elif ip != self.ip and ip not in self.names:
            return
        ok, why = self._disc.probe_acceptable(data)
        if not ok:
            self.probes_rejected.append(why)
            return
        self.probes_ok += 1
        if self.probes_ok <= self.lose_first:
            return
        if self.answered and not self.answer_every:
            return
        self.answered = True
        for delay, sport, payload in self.replies:
            src = (self.ip, sport if sport is not None else self.port)
            if delay <= 0:
                net.loop.call_soon(transport.deliver, payload, src)
            else:
                net.loop.call_later(delay, transport.deliver, payload, src)
