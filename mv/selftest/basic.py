"""setup_cmd: verify the framework can run here (offline, from files on disk only).

* reference primitives agree with a pure-Python AES / FIPS-197 vectors / openssl
* msmart is importable from the repository working tree
* a V2 and a V3 refresh round-trip works on the virtual loop against the simulated device
"""
from __future__ import annotations

import sys


def main() -> int:
    from ..ref import prim
    r = prim.selftest()
    print("primitives:", r)
    from .. import harness as H
    from ..simdev import SimDevice
    from msmart.device import AirConditioner as AC
    for version in (2, 3):
        net = H.new_net()
        tok, key = bytes(range(64)), bytes(range(32))
        dev = SimDevice(net, version=version, token=tok, key=key, device_id=0x112233445566)

        async def go(loop):
            ac = AC(ip=dev.host, port=dev.port, device_id=dev.device_id)
            if version == 3:
                await ac.authenticate(tok, key)
            await ac.refresh()
            return ac.online, ac.supported, ac.target_temperature

        res, loop = H.run_virtual(go, net)
        print(f"V{version} refresh on virtual loop:", res, "virtual t =", loop.time())
        if res != (True, True, 24.0):
            print("selftest failed: unexpected refresh result")
            return 1
    print("selftest ok; msmart from", H.msmart.__file__)
    return 0


if __name__ == "__main__":
    sys.exit(main())
