"""Confirm and store a seeded breakage produced by an independent sub-agent.

    python -m mv.selftest.ingest_seed <worktree> <patch> <demo> <name> <property> "<needs>" ["<summary>"]

Confirms on scratch copies of /repo (outside /repo and /verif): demo exits 0 on the original tree, non-zero with the patch;
the repository's own tests give the same result (65 passed / 6 failed) with the patch.  Then stores
/verif/seeded/<name>/{patch.diff, demo.py, meta.json}.
"""
from __future__ import annotations

import json
import os
import re
import shutil
import subprocess
import sys
import tempfile

VERIF = os.path.dirname(os.path.dirname(os.path.dirname(os.path.abspath(__file__))))


def copy_repo():
    d = tempfile.mkdtemp(prefix="mv-ingest-")
    dst = os.path.join(d, "repo")
    shutil.copytree("/repo", dst, ignore=shutil.ignore_patterns(".git", "__pycache__", ".benchmarks"))
    return d, dst


def run_demo(root, demo):
    shutil.copy(demo, os.path.join(root, "demo_seed.py"))
    r = subprocess.run(["/venv/bin/python", "demo_seed.py"], cwd=root, capture_output=True, text=True, timeout=300,
                       env={**os.environ, "PYTHONPATH": root, "PYTHONDONTWRITEBYTECODE": "1"})
    return r.returncode, (r.stdout + r.stderr)[-400:]


def run_tests(root):
    r = subprocess.run(["/venv/bin/python", "-m", "pytest", "-q", "-p", "no:cacheprovider"], cwd=root, capture_output=True, text=True, timeout=900,
                       env={**os.environ, "PYTHONPATH": root, "PYTHONDONTWRITEBYTECODE": "1"})
    m = re.search(r"(\d+) failed, (\d+) passed", r.stdout)
    return (int(m.group(1)), int(m.group(2))) if m else r.stdout[-300:]


def main():
    wt, patch, demo, name, prop, needs = sys.argv[1:7]
    summary = sys.argv[7] if len(sys.argv) > 7 else ""
    patch_p, demo_p = os.path.join(wt, patch), os.path.join(wt, demo)
    d1, clean = copy_repo()
    d2, mut = copy_repo()
    try:
        rc0, out0 = run_demo(clean, demo_p)
        ap = subprocess.run(["git", "apply", "--whitespace=nowarn", patch_p], cwd=mut, capture_output=True, text=True)
        if ap.returncode != 0:
            print("PATCH DOES NOT APPLY:", ap.stderr[:400])
            return 2
        rc1, out1 = run_demo(mut, demo_p)
        tests = run_tests(mut)
        print(f"demo on original: rc={rc0}; demo with change: rc={rc1}; tests with change: {tests}")
        ok = rc0 == 0 and rc1 != 0 and tests == (6, 65)
        if not ok:
            print("NOT CONFIRMED", out0[-200:], "|||", out1[-200:])
            return 1
        dst = os.path.join(VERIF, "seeded", name)
        os.makedirs(dst, exist_ok=True)
        shutil.copy(patch_p, os.path.join(dst, "patch.diff"))
        shutil.copy(demo_p, os.path.join(dst, "demo.py"))
        meta = {"property": prop, "summary": summary, "needs_to_manifest": needs,
                "origin": "independent sub-agent given only the property text and a scratch worktree",
                "confirmed": {"demo_rc_original": rc0, "demo_rc_with_change": rc1, "repo_tests_with_change": "6 failed, 65 passed (same as baseline)",
                              "how": "python -m mv.selftest.ingest_seed on scratch copies of /repo"},
                "demo_output_with_change": out1[-300:]}
        json.dump(meta, open(os.path.join(dst, "meta.json"), "w"), indent=1)
        print("stored", dst)
        return 0
    finally:
        shutil.rmtree(d1, ignore_errors=True)
        shutil.rmtree(d2, ignore_errors=True)


if __name__ == "__main__":
    sys.exit(main())
