"""Property-preserving changes (robustness against false alarms).

    python -m mv.selftest.preserving ingest <worktree> <patch> <demo> <name> <property> "<what differs>" "<why the property holds>"
    python -m mv.selftest.preserving run [name ...] [--tier quick] [--jobs n] [--own-only]

`ingest` confirms on scratch copies of /repo that the demo exits 0 on the original AND with the change and that the repository's
own tests are unchanged (65 passed / 6 failed), then stores /verif/preserving/<name>/{patch.diff, demo.py, meta.json}.
`run` applies each stored change to a scratch copy and runs ALL twenty checks against it: any VIOLATION is a false alarm of a
check (or the change does not preserve the property after all - to be decided by reading the witness); exit status 2
(inconclusive, e.g. a renamed private name) is reported separately.
"""
from __future__ import annotations

import argparse
import json
import os
import shutil
import subprocess
import sys
import time

from .ingest_seed import copy_repo, run_demo, run_tests

VERIF = os.path.dirname(os.path.dirname(os.path.dirname(os.path.abspath(__file__))))
KEEP = os.path.join(VERIF, "preserving")


def ingest(argv):
    wt, patch, demo, name, prop, differs, why = argv[:7]
    patch_p, demo_p = os.path.join(wt, patch), os.path.join(wt, demo)
    d1, clean = copy_repo()
    d2, mut = copy_repo()
    try:
        rc0, out0 = run_demo(clean, demo_p)
        ap = subprocess.run(["git", "apply", "--whitespace=nowarn", patch_p], cwd=mut, capture_output=True, text=True)
        if ap.returncode != 0:
            print("PATCH DOES NOT APPLY:", ap.stderr[:400])
            return 2
        rc1, out1 = run_demo(mut, demo_p)
        tests = run_tests(mut)
        print(f"demo on original: rc={rc0}; demo with change: rc={rc1}; tests with change: {tests}")
        if not (rc0 == 0 and rc1 == 0 and tests == (6, 65)):
            print("NOT CONFIRMED", out0[-200:], "|||", out1[-200:])
            return 1
        dst = os.path.join(KEEP, name)
        os.makedirs(dst, exist_ok=True)
        shutil.copy(patch_p, os.path.join(dst, "patch.diff"))
        shutil.copy(demo_p, os.path.join(dst, "demo.py"))
        json.dump({"property": prop, "what_differs": differs, "why_property_holds": why,
                   "origin": "independent sub-agent given only the property text and a scratch worktree, asked for changes that preserve the property",
                   "confirmed": {"demo_rc_original": rc0, "demo_rc_with_change": rc1, "repo_tests_with_change": "6 failed, 65 passed (same as baseline)"}},
                  open(os.path.join(dst, "meta.json"), "w"), indent=1)
        print("stored", dst)
        return 0
    finally:
        shutil.rmtree(d1, ignore_errors=True)
        shutil.rmtree(d2, ignore_errors=True)


def run(argv):
    ap = argparse.ArgumentParser()
    ap.add_argument("names", nargs="*")
    ap.add_argument("--tier", default="quick")
    ap.add_argument("--jobs", type=int, default=8)
    ap.add_argument("--own-only", action="store_true")
    ap.add_argument("--checks", nargs="*", help="restrict to these checks (e.g. after changing their oracles)")
    a = ap.parse_args(argv)
    names = a.names or sorted(n for n in os.listdir(KEEP) if os.path.isdir(os.path.join(KEEP, n)))
    allp = [c.upper() for c in a.checks] if a.checks else [f"C{i:02d}" for i in range(1, 21)]
    from concurrent.futures import ThreadPoolExecutor

    def one(job):
        name, pid = job
        d = os.path.join(KEEP, name)
        tmp, root = copy_repo()
        try:
            r = subprocess.run(["git", "apply", "--whitespace=nowarn", os.path.join(d, "patch.diff")], cwd=root, capture_output=True, text=True)
            if r.returncode != 0:
                return name, pid, -1, "patch does not apply: " + r.stderr[:200]
            t0 = time.time()
            rr = subprocess.run([os.path.join(VERIF, "check"), pid, "--tier", a.tier, "--no-evidence"], cwd=VERIF, capture_output=True, text=True,
                                timeout=3600, env={**os.environ, "MSMART_VERIF_REPO": root})
            lines = [l.strip() for l in rr.stdout.splitlines() if l.strip().startswith(("mechanism=", "INCONCLUSIVE"))]
            return name, pid, rr.returncode, (lines[0][:230] if lines else "") + f" [{time.time() - t0:.0f}s]"
        finally:
            shutil.rmtree(tmp, ignore_errors=True)

    jobs = []
    for n in names:
        meta = json.load(open(os.path.join(KEEP, n, "meta.json")))
        for pid in ([meta["property"]] if a.own_only else allp):
            jobs.append((n, pid))
    alarms = inconclusive = 0
    with ThreadPoolExecutor(max_workers=a.jobs) as ex:
        for name, pid, rc, info in ex.map(one, jobs):
            if rc == 0:
                continue
            expected = json.load(open(os.path.join(KEEP, name, "meta.json"))).get("expected_alarms", {})
            if rc == 1 and pid in expected:
                print(f"EXPECTED     {name:44s} {pid} {info}  (the change preserves its own property but breaks {pid}: {expected[pid][:120]})", flush=True)
            elif rc == 1:
                alarms += 1
                print(f"ALARM        {name:44s} {pid} {info}", flush=True)
            else:
                inconclusive += 1
                print(f"INCONCLUSIVE {name:44s} {pid} rc={rc} {info}", flush=True)
    print(f"{len(jobs)} (change, check) runs: {alarms} alarms, {inconclusive} inconclusive, {len(jobs) - alarms - inconclusive} silent")
    return 1 if alarms else 0


if __name__ == "__main__":
    if len(sys.argv) > 1 and sys.argv[1] == "ingest":
        sys.exit(ingest(sys.argv[2:]))
    sys.exit(run(sys.argv[2:] if len(sys.argv) > 1 and sys.argv[1] == "run" else sys.argv[1:]))
