"""Silence-on-the-unchanged-tree sweep:  python -m mv.selftest.sweep [--tier quick] [--seeds 1 2 3] [Cxx ...]

Runs every check in a fresh process per (property, seed) with --no-evidence and reports anything that is not exit 0.
"""
from __future__ import annotations

import argparse
import os
import subprocess
import sys
import time
from concurrent.futures import ThreadPoolExecutor

VERIF = os.path.dirname(os.path.dirname(os.path.dirname(os.path.abspath(__file__))))


def one(pid, seed, tier, hashseed):
    env = {**os.environ, "VERIF_SEED": str(seed)}
    if hashseed is not None:
        env["PYTHONHASHSEED"] = str(hashseed)
    else:
        env.pop("PYTHONHASHSEED", None)
    t0 = time.time()
    r = subprocess.run([os.path.join(VERIF, "check"), pid, "--tier", tier, "--no-evidence"], cwd=VERIF, capture_output=True, text=True,
                       timeout=3600, env=env)
    last = [l for l in r.stdout.splitlines() if l.startswith(pid + " tier=")]
    return pid, seed, r.returncode, time.time() - t0, (last[-1] if last else r.stdout[-300:] + r.stderr[-300:]), r.stdout


def main():
    ap = argparse.ArgumentParser()
    ap.add_argument("pids", nargs="*")
    ap.add_argument("--tier", default="quick")
    ap.add_argument("--seeds", nargs="*", type=int, default=[1, 2, 3, 4, 5])
    ap.add_argument("--hashseed", type=int)
    ap.add_argument("--jobs", type=int, default=8)
    a = ap.parse_args()
    pids = a.pids or [f"C{i:02d}" for i in range(1, 21)]
    jobs = [(p, s) for p in pids for s in a.seeds]
    bad = 0
    with ThreadPoolExecutor(max_workers=a.jobs if a.tier == "quick" else 1) as ex:
        for pid, seed, rc, dt, line, out in ex.map(lambda j: one(j[0], j[1], a.tier, a.hashseed), jobs):
            flag = "ok " if rc == 0 else f"RC={rc}"
            print(f"{flag} seed={seed} {dt:6.1f}s {line}")
            if rc != 0:
                bad += 1
                print("\n".join(l for l in out.splitlines() if l.startswith(("VIOLATION", "INCONCLUSIVE", "  mechanism")))[:1500])
    print(f"{len(jobs) - bad}/{len(jobs)} runs silent")
    return 1 if bad else 0


if __name__ == "__main__":
    sys.exit(main())
