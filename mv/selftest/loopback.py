"""Simulation fidelity self-test: replay a fixed set of scenarios over REAL 127.0.0.1 sockets with the stock asyncio
event loop and over the simulated network on the virtual loop; compare the client-visible traces.

    python -m mv.selftest.loopback

Scenarios (V2 peer built from mv.ref): normal exchange, two packets in one segment, one packet in two segments,
peer FIN instead of a reply, peer RST instead of a reply, refused port, silent peer (real 6 s of timeouts).
A divergence means the in-memory transport does not behave like asyncio's socket transport for that scenario; it is
reported as 'simulation diverges' (inconclusive), never as a property violation.
"""
from __future__ import annotations

import asyncio
import json
import socket
import struct
import sys
import time

from .. import harness as H
from ..ref import acframe, acstate, v2
from ..simdev import SimDevice

from msmart.lan import LAN, ProtocolError

SCENARIOS = ["normal", "coalesced", "split", "fin", "rst", "refused", "silent"]
GOOD = acframe.build(acstate.encode_0xC0(acstate.default_state(), 23), acframe.FT_QUERY)
GOOD2 = acframe.build(acstate.encode_0xC0({**acstate.default_state(), "power": True}, 23), acframe.FT_QUERY)


def _segments(scn):
    p1, p2 = v2.build(GOOD, 5), v2.build(GOOD2, 5)
    if scn == "normal":
        return [p1]
    if scn == "coalesced":
        return [p1 + p2]
    if scn == "split":
        return [p1[:30], p1[30:]]
    return []


async def _client(host, port):
    """Two consecutive sends; returns the client-visible trace."""
    lan = LAN(host, port, 5)
    trace = []
    for i in range(2):
        try:
            res = await lan.send(acframe.state_query(i + 1))
            trace.append(("frames", [bytes(r).hex() for r in res]))
        except ProtocolError as e:
            trace.append(("ProtocolError", str(e).split(":")[0][:40]))
        except TimeoutError as e:
            trace.append(("TimeoutError", str(e)))
        except OSError as e:
            trace.append(("OSError", type(e).__name__))
    return trace


def run_sim(scn):
    net = H.new_net()
    dev = SimDevice(net, host="127.0.0.1", port=16444, version=2, device_id=5)
    first = {"done": False}

    def on_exchange(conn, req, packets, meta):
        if first["done"]:
            return None
        first["done"] = True
        if scn == "fin":
            return [(0, "fin")]
        if scn == "rst":
            return [(0, "rst")]
        if scn == "silent":
            conn.wedged = True
            return []
        return [(0.0, s) if i == 0 else (0.05 * i, s) for i, s in enumerate(_segments(scn))]

    dev.on_exchange = on_exchange
    if scn == "refused":
        dev.connect_script = ["refuse", "refuse"]

    async def go(loop):
        return await _client("127.0.0.1", 16444)

    trace, loop = H.run_virtual(go, net)
    return trace


def run_real(scn):
    async def main():
        first = {"done": False}

        async def handle(reader, writer):
            try:
                while True:
                    hdr = await reader.readexactly(6)
                    n = int.from_bytes(hdr[4:6], "little")
                    rest = await reader.readexactly(n - 6)
                    frame = v2.parse(hdr + rest)["frame"]
                    if not first["done"]:
                        first["done"] = True
                        if scn == "fin":
                            writer.close()
                            return
                        if scn == "rst":
                            sock = writer.get_extra_info("socket")
                            sock.setsockopt(socket.SOL_SOCKET, socket.SO_LINGER, struct.pack("ii", 1, 0))
                            writer.close()
                            return
                        if scn == "silent":
                            await asyncio.sleep(30)
                            return
                        for i, s in enumerate(_segments(scn)):
                            if i:
                                await asyncio.sleep(0.05)
                            writer.write(s)
                            await writer.drain()
                    else:
                        writer.write(v2.build(GOOD, 5))
                        await writer.drain()
            except (asyncio.IncompleteReadError, ConnectionError):
                pass

        if scn == "refused":
            s = socket.socket()
            s.bind(("127.0.0.1", 0))
            port = s.getsockname()[1]
            s.close()
            return await _client("127.0.0.1", port)
        server = await asyncio.start_server(handle, "127.0.0.1", 0)
        port = server.sockets[0].getsockname()[1]
        try:
            return await _client("127.0.0.1", port)
        finally:
            server.close()

    # real wall clock for msmart's datetime while on real sockets
    import datetime as _dt
    import msmart.lan
    saved = msmart.lan.datetime
    msmart.lan.datetime = _dt.datetime
    try:
        return asyncio.run(main())
    finally:
        msmart.lan.datetime = saved


def compare(scenarios=SCENARIOS):
    out = []
    for scn in scenarios:
        t0 = time.time()
        sim = run_sim(scn)
        try:
            real = run_real(scn)
            err = None
        except Exception as e:  # noqa: BLE001 - loopback unavailable etc.
            real, err = None, f"{type(e).__name__}: {e}"
        same = (real is not None and json.dumps(sim) == json.dumps(real))
        out.append({"scenario": scn, "same": same, "sim": sim, "real": real, "error": err, "wall_s": round(time.time() - t0, 2)})
    return out


def main() -> int:
    res = compare()
    bad = 0
    for r in res:
        status = "same" if r["same"] else ("SKIPPED " + r["error"] if r["error"] else "DIVERGES")
        print(f"{r['scenario']:10s} {status:10s} {r['wall_s']:5.1f}s sim={[t[0] for t in r['sim']]} real={[t[0] for t in r['real']] if r['real'] else None}")
        if not r["same"] and not r["error"]:
            bad += 1
            print("   sim :", r["sim"])
            print("   real:", r["real"])
    return 1 if bad else 0


if __name__ == "__main__":
    sys.exit(main())
