"""Mutation battery: realistic single-edit mutants per property.

    python -m mv.selftest.mutants [Cxx ...] [--tests] [--tier quick]

Each mutant is applied to a scratch copy of the repository (under $TMPDIR, outside
/repo and /verif), optionally the repo's own tests are run on it (mutants that
fail them are reported as 'unrealistic'), then the property's check is run with
MSMART_VERIF_REPO=<copy> and must exit 1.  Copies are removed immediately.
Nothing here is a registered check; it validates the monitors.
"""
from __future__ import annotations

import argparse
import json
import os
import shutil
import subprocess
import sys
import tempfile
import time

VERIF = os.path.dirname(os.path.dirname(os.path.dirname(os.path.abspath(__file__))))
REPO = "/repo"

# (property, name, file, old, new)
MUTANTS = []


def M(pid, name, file, old, new):
    MUTANTS.append((pid, name, file, old, new))


LAN = "msmart/lan.py"
CMD = "msmart/device/AC/command.py"
DEV = "msmart/device/AC/device.py"
BASE = "msmart/base_device.py"
DISC = "msmart/discover.py"
CLOUD = "msmart/cloud.py"
CLI = "msmart/cli.py"
FRAME = "msmart/frame.py"

# ---- C02
M("C02", "len-off-by-one", LAN, "length = 40 + len(encrypted_payload) + 16", "length = 40 + len(encrypted_payload) + 15")
M("C02", "len-big-endian", LAN, 'header += length.to_bytes(2, "little")  # Packet size', 'header += length.to_bytes(2, "big")  # Packet size')
M("C02", "id-6-bytes", LAN, 'header += device_id.to_bytes(8, "little")  # Device ID\n        header += bytes(12)  # ???',
  'header += device_id.to_bytes(6, "little")  # Device ID\n        header += bytes(14)  # ???')
M("C02", "sign-short", LAN, "return packet + Security.sign(packet)", "return packet + Security.sign(packet[:-1])")
M("C02", "ecb-to-cbc", LAN, "cipher = AES.new(Security.ENC_KEY, AES.MODE_ECB)\n\n        # Encrypt the padded data",
  "cipher = AES.new(Security.ENC_KEY, AES.MODE_CBC, iv=bytes(16))\n\n        # Encrypt the padded data")
M("C02", "id-masked-48", LAN, 'header += device_id.to_bytes(8, "little")  # Device ID',
  'header += (device_id & 0xFFFFFFFFFFFF).to_bytes(8, "little")  # Device ID')
M("C02", "timestamp-year-overflow", LAN, "int(now.year / 100)\n", "now.year - 1900\n")


def apply_mutant(src_root: str, file: str, old: str, new: str) -> None:
    p = os.path.join(src_root, file)
    with open(p) as f:
        s = f.read()
    if s.count(old) != 1:
        raise RuntimeError(f"mutant anchor found {s.count(old)} times in {file}: {old[:60]!r}")
    with open(p, "w") as f:
        f.write(s.replace(old, new))


def make_copy() -> str:
    d = tempfile.mkdtemp(prefix="mv-mutant-")
    dst = os.path.join(d, "repo")
    shutil.copytree(REPO, dst, ignore=shutil.ignore_patterns(".git", "__pycache__", "reference", ".benchmarks", "*.zip"))
    return d


def run_tests(root: str) -> bool:
    r = subprocess.run(["/venv/bin/python", "-m", "pytest", "-q", "-x", "-p", "no:cacheprovider",
                        "--deselect", "msmart/tests/test_cloud.py::TestNetHomePlusCloud::test_get_token",
                        "--deselect", "msmart/tests/test_cloud.py::TestNetHomePlusCloud::test_get_token_exception",
                        "--deselect", "msmart/tests/test_cloud.py::TestNetHomePlusCloud::test_login",
                        "--deselect", "msmart/tests/test_cloud.py::TestNetHomePlusCloud::test_login_exception",
                        "--deselect", "msmart/tests/test_cloud.py::TestSmartHomeCloud::test_login",
                        "--deselect", "msmart/tests/test_cloud.py::TestSmartHomeCloud::test_login_exception"],
                       cwd=root, capture_output=True, text=True, timeout=600,
                       env={**os.environ, "PYTHONPATH": root, "PYTHONDONTWRITEBYTECODE": "1"})
    return r.returncode == 0


def run_check(pid: str, root: str, tier: str) -> tuple[int, str]:
    env = {**os.environ, "MSMART_VERIF_REPO": root, "VERIF_SEED": os.environ.get("VERIF_SEED", "0")}
    r = subprocess.run([os.path.join(VERIF, "check"), pid, "--tier", tier, "--no-evidence"], cwd=VERIF,
                       capture_output=True, text=True, timeout=1800, env=env)
    return r.returncode, r.stdout[-1500:] + r.stderr[-500:]


def main() -> int:
    ap = argparse.ArgumentParser()
    ap.add_argument("pids", nargs="*")
    ap.add_argument("--tests", action="store_true", help="also run the repository's own tests on each mutant")
    ap.add_argument("--tier", default="quick")
    ap.add_argument("--name")
    ap.add_argument("-v", action="store_true")
    a = ap.parse_args()
    sel = [m for m in MUTANTS if (not a.pids or m[0] in a.pids) and (not a.name or a.name == m[1])]
    results = []
    for pid, name, file, old, new in sel:
        d = make_copy()
        root = os.path.join(d, "repo")
        t0 = time.time()
        try:
            apply_mutant(root, file, old, new)
            realistic = run_tests(root) if a.tests else None
            rc, out = run_check(pid, root, a.tier)
        except Exception as e:  # noqa: BLE001
            rc, out, realistic = -1, f"ERROR {e}", None
        finally:
            shutil.rmtree(d, ignore_errors=True)
        killed = rc == 1
        results.append({"property": pid, "mutant": name, "killed": killed, "rc": rc,
                        "passes_repo_tests": realistic, "wall_s": round(time.time() - t0, 1)})
        mech = [l for l in out.splitlines() if "mechanism=" in l][:2]
        print(f"{pid} {name:32s} {'KILLED' if killed else 'SURVIVED rc=' + str(rc):14s} tests={'-' if realistic is None else ('pass' if realistic else 'FAIL')} "
              f"{time.time() - t0:5.1f}s {mech[0].strip()[:110] if mech else ''}")
        if a.v and not killed:
            print(out)
    surv = [r for r in results if not r["killed"]]
    print(f"{len(results) - len(surv)}/{len(results)} mutants killed")
    return 1 if surv else 0


if __name__ == "__main__":
    sys.exit(main())
