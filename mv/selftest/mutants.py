"""Mutation battery: realistic single-edit mutants per property.

    python -m mv.selftest.mutants [Cxx ...] [--tests] [--tier quick]

Each mutant is applied to a scratch copy of the repository (under $TMPDIR, outside
/repo and /verif), optionally the repo's own tests are run on it (mutants that
fail them are reported as 'unrealistic'), then the property's check is run with
MSMART_VERIF_REPO=<copy> and must exit 1.  Copies are removed immediately.
Nothing here is a registered check; it validates the monitors.
"""
from __future__ import annotations

import argparse
import json
import os
import shutil
import subprocess
import sys
import tempfile
import time

VERIF = os.path.dirname(os.path.dirname(os.path.dirname(os.path.abspath(__file__))))
REPO = "/repo"

# (property, name, file, old, new)
MUTANTS = []


def M(pid, name, file, old, new):
    MUTANTS.append((pid, name, file, old, new))


LAN = "msmart/lan.py"
CMD = "msmart/device/AC/command.py"
DEV = "msmart/device/AC/device.py"
BASE = "msmart/base_device.py"
DISC = "msmart/discover.py"
CLOUD = "msmart/cloud.py"
CLI = "msmart/cli.py"
FRAME = "msmart/frame.py"

# ---- C02
M("C02", "len-off-by-one", LAN, "length = 40 + len(encrypted_payload) + 16", "length = 40 + len(encrypted_payload) + 15")
M("C02", "len-big-endian", LAN, 'header += length.to_bytes(2, "little")  # Packet size', 'header += length.to_bytes(2, "big")  # Packet size')
M("C02", "id-6-bytes", LAN, 'header += device_id.to_bytes(8, "little")  # Device ID\n        header += bytes(12)  # ???',
  'header += device_id.to_bytes(6, "little")  # Device ID\n        header += bytes(14)  # ???')
M("C02", "sign-short", LAN, "return packet + Security.sign(packet)", "return packet + Security.sign(packet[:-1])")
M("C02", "ecb-to-cbc", LAN, "cipher = AES.new(Security.ENC_KEY, AES.MODE_ECB)\n\n        # Encrypt the padded data",
  "cipher = AES.new(Security.ENC_KEY, AES.MODE_CBC, iv=bytes(16))\n\n        # Encrypt the padded data")
M("C02", "id-masked-48", LAN, 'header += device_id.to_bytes(8, "little")  # Device ID',
  'header += (device_id & 0xFFFFFFFFFFFF).to_bytes(8, "little")  # Device ID')
M("C02", "timestamp-year-overflow", LAN, "int(now.year / 100)\n", "now.year - 1900\n")

# ---- C03
M("C03", "hash-prefix-only", LAN, "if Security.sign(bytes(packet[:-16])) != rx_hash:", "if Security.sign(bytes(packet[:-16]))[:4] != rx_hash[:4]:")
M("C03", "no-hash-check", LAN, "if Security.sign(bytes(packet[:-16])) != rx_hash:", "if False:")
M("C03", "sign-header-only", LAN, "if Security.sign(bytes(packet[:-16])) != rx_hash:", "if Security.sign(bytes(packet[:40])) != Security.sign(bytes(packet[:40])) or len(rx_hash) != 16:")
M("C03", "hash-skip-last-byte", LAN, "if Security.sign(bytes(packet[:-16])) != rx_hash:", "if Security.sign(bytes(packet[:-16]))[:15] != rx_hash[:15]:")
# (marker-first-byte-only is an equivalent mutant for C03: the signature covers the marker)

# ---- C04
M("C04", "total-size-plus-6", LAN, 'total_size = int.from_bytes(buf[2:4], "big") + 8', 'total_size = int.from_bytes(buf[2:4], "big") + 6')
M("C04", "drop-carry-over", LAN, "packet, self._buffer = buf[:total_size], bytearray(\n                    buf[total_size:])", "packet, self._buffer = buf[:total_size], bytearray()")
M("C04", "no-loop-second-packet", LAN, "while len(self._buffer) > 0:\n            # Find start of packet", "if len(self._buffer) > 0:\n            # Find start of packet")
M("C04", "partial-off-by-one", LAN, "if len(buf) < total_size:", "if len(buf) <= total_size:")
M("C04", "no-trim-garbage", LAN, "                buf = buf[start:]\n", "                pass\n")
M("C04", "drop-buffer-without-marker", LAN, "        self._buffer += data\n", "        self._buffer = (self._buffer + data) if self._buffer[:2] == b\"\\x83\\x70\" else bytearray(data)\n")
M("C04", "size-little-endian", LAN, 'total_size = int.from_bytes(buf[2:4], "big") + 8', 'total_size = int.from_bytes(buf[2:4], "little") + 8')

# ---- C05
M("C05", "pad-no-zero-case", LAN, "pad = 16 - remainder if remainder != 0 else 0", "pad = 16 - remainder")
M("C05", "tag-payload-only", LAN, "calc_hash = sha256(header + payload).digest()", "calc_hash = sha256(payload).digest()")
M("C05", "size-includes-counter", LAN, "length = len(data) + pad + 32", "length = len(data) + pad + 34")
M("C05", "no-tag-check", LAN, "if sha256(bytes(header) + decrypted_payload).digest() != rx_hash:", "if False:")
M("C05", "pad0-slice-regression", LAN, "return payload[2:len(payload) - pad].tobytes()", "return payload[2:-pad].tobytes()")
M("C05", "tag-prefix-only", LAN, "if sha256(bytes(header) + decrypted_payload).digest() != rx_hash:", "if sha256(bytes(header) + decrypted_payload).digest()[:16] != rx_hash[:16]:")
M("C05", "counter-little-endian", LAN, 'payload = packet_id.to_bytes(2, "big") + data + get_random_bytes(pad)', 'payload = packet_id.to_bytes(2, "little") + data + get_random_bytes(pad)')
M("C05", "no-block-check", LAN, "        if len(payload) % 16 != 0:\n            raise ProtocolError(\n                f\"Invalid encrypted payload length: {len(payload)}\")\n", "")
M("C05", "tag-ignores-header", LAN, "if sha256(bytes(header) + decrypted_payload).digest() != rx_hash:", "if sha256(bytes(header[:5]) + decrypted_payload).digest() != sha256(bytes(header[:5]) + decrypted_payload).digest() or len(rx_hash) != 32:")


def apply_mutant(src_root: str, file: str, old: str, new: str) -> None:
    p = os.path.join(src_root, file)
    with open(p) as f:
        s = f.read()
    if s.count(old) != 1:
        raise RuntimeError(f"mutant anchor found {s.count(old)} times in {file}: {old[:60]!r}")
    with open(p, "w") as f:
        f.write(s.replace(old, new))


def make_copy() -> str:
    d = tempfile.mkdtemp(prefix="mv-mutant-")
    dst = os.path.join(d, "repo")
    shutil.copytree(REPO, dst, ignore=shutil.ignore_patterns(".git", "__pycache__", "reference", ".benchmarks", "*.zip"))
    return d


def run_tests(root: str) -> bool:
    r = subprocess.run(["/venv/bin/python", "-m", "pytest", "-q", "-x", "-p", "no:cacheprovider",
                        "--deselect", "msmart/tests/test_cloud.py::TestNetHomePlusCloud::test_get_token",
                        "--deselect", "msmart/tests/test_cloud.py::TestNetHomePlusCloud::test_get_token_exception",
                        "--deselect", "msmart/tests/test_cloud.py::TestNetHomePlusCloud::test_login",
                        "--deselect", "msmart/tests/test_cloud.py::TestNetHomePlusCloud::test_login_exception",
                        "--deselect", "msmart/tests/test_cloud.py::TestSmartHomeCloud::test_login",
                        "--deselect", "msmart/tests/test_cloud.py::TestSmartHomeCloud::test_login_exception"],
                       cwd=root, capture_output=True, text=True, timeout=600,
                       env={**os.environ, "PYTHONPATH": root, "PYTHONDONTWRITEBYTECODE": "1"})
    return r.returncode == 0


def run_check(pid: str, root: str, tier: str) -> tuple[int, str]:
    env = {**os.environ, "MSMART_VERIF_REPO": root, "VERIF_SEED": os.environ.get("VERIF_SEED", "0")}
    r = subprocess.run([os.path.join(VERIF, "check"), pid, "--tier", tier, "--no-evidence"], cwd=VERIF,
                       capture_output=True, text=True, timeout=1800, env=env)
    return r.returncode, r.stdout[-1500:] + r.stderr[-500:]


def main() -> int:
    ap = argparse.ArgumentParser()
    ap.add_argument("pids", nargs="*")
    ap.add_argument("--tests", action="store_true", help="also run the repository's own tests on each mutant")
    ap.add_argument("--tier", default="quick")
    ap.add_argument("--name")
    ap.add_argument("-v", action="store_true")
    a = ap.parse_args()
    sel = [m for m in MUTANTS if (not a.pids or m[0] in a.pids) and (not a.name or a.name == m[1])]
    results = []
    for pid, name, file, old, new in sel:
        d = make_copy()
        root = os.path.join(d, "repo")
        t0 = time.time()
        try:
            apply_mutant(root, file, old, new)
            realistic = run_tests(root) if a.tests else None
            rc, out = run_check(pid, root, a.tier)
        except Exception as e:  # noqa: BLE001
            rc, out, realistic = -1, f"ERROR {e}", None
        finally:
            shutil.rmtree(d, ignore_errors=True)
        killed = rc == 1
        results.append({"property": pid, "mutant": name, "killed": killed, "rc": rc,
                        "passes_repo_tests": realistic, "wall_s": round(time.time() - t0, 1)})
        mech = [l for l in out.splitlines() if "mechanism=" in l][:2]
        print(f"{pid} {name:32s} {'KILLED' if killed else 'SURVIVED rc=' + str(rc):14s} tests={'-' if realistic is None else ('pass' if realistic else 'FAIL')} "
              f"{time.time() - t0:5.1f}s {mech[0].strip()[:110] if mech else ''}")
        if a.v and not killed:
            print(out)
    surv = [r for r in results if not r["killed"]]
    print(f"{len(results) - len(surv)}/{len(results)} mutants killed")
    return 1 if surv else 0


if __name__ == "__main__":
    sys.exit(main())
