"""Mutation battery: realistic single-edit mutants per property.

    python -m mv.selftest.mutants [Cxx ...] [--tests] [--tier quick]

Each mutant is applied to a scratch copy of the repository (under $TMPDIR, outside
/repo and /verif), optionally the repo's own tests are run on it (mutants that
fail them are reported as 'unrealistic'), then the property's check is run with
MSMART_VERIF_REPO=<copy> and must exit 1.  Copies are removed immediately.
Nothing here is a registered check; it validates the monitors.
"""
from __future__ import annotations

import argparse
import json
import os
import shutil
import subprocess
import sys
import tempfile
import time

VERIF = os.path.dirname(os.path.dirname(os.path.dirname(os.path.abspath(__file__))))
REPO = "/repo"

# (property, name, file, old, new)
MUTANTS = []


def M(pid, name, file, old, new):
    MUTANTS.append((pid, name, file, old, new))


LAN = "msmart/lan.py"
CMD = "msmart/device/AC/command.py"
DEV = "msmart/device/AC/device.py"
BASE = "msmart/base_device.py"
DISC = "msmart/discover.py"
CLOUD = "msmart/cloud.py"
CLI = "msmart/cli.py"
FRAME = "msmart/frame.py"

# ---- C02
M("C02", "len-off-by-one", LAN, "length = 40 + len(encrypted_payload) + 16", "length = 40 + len(encrypted_payload) + 15")
M("C02", "len-big-endian", LAN, 'header += length.to_bytes(2, "little")  # Packet size', 'header += length.to_bytes(2, "big")  # Packet size')
M("C02", "id-6-bytes", LAN, 'header += device_id.to_bytes(8, "little")  # Device ID\n        header += bytes(12)  # ???',
  'header += device_id.to_bytes(6, "little")  # Device ID\n        header += bytes(14)  # ???')
M("C02", "sign-short", LAN, "return packet + Security.sign(packet)", "return packet + Security.sign(packet[:-1])")
M("C02", "ecb-to-cbc", LAN, "cipher = AES.new(Security.ENC_KEY, AES.MODE_ECB)\n\n        # Encrypt the padded data",
  "cipher = AES.new(Security.ENC_KEY, AES.MODE_CBC, iv=bytes(16))\n\n        # Encrypt the padded data")
M("C02", "id-masked-48", LAN, 'header += device_id.to_bytes(8, "little")  # Device ID',
  'header += (device_id & 0xFFFFFFFFFFFF).to_bytes(8, "little")  # Device ID')
M("C02", "timestamp-year-overflow", LAN, "int(now.year / 100)\n", "now.year - 1900\n")

# ---- C03
M("C03", "hash-prefix-only", LAN, "if Security.sign(bytes(packet[:-16])) != rx_hash:", "if Security.sign(bytes(packet[:-16]))[:4] != rx_hash[:4]:")
M("C03", "no-hash-check", LAN, "if Security.sign(bytes(packet[:-16])) != rx_hash:", "if False:")
M("C03", "sign-header-only", LAN, "if Security.sign(bytes(packet[:-16])) != rx_hash:", "if Security.sign(bytes(packet[:40])) != Security.sign(bytes(packet[:40])) or len(rx_hash) != 16:")
M("C03", "hash-skip-last-byte", LAN, "if Security.sign(bytes(packet[:-16])) != rx_hash:", "if Security.sign(bytes(packet[:-16]))[:15] != rx_hash[:15]:")
# (marker-first-byte-only is an equivalent mutant for C03: the signature covers the marker)

# ---- C04
M("C04", "total-size-plus-6", LAN, 'total_size = int.from_bytes(buf[2:4], "big") + 8', 'total_size = int.from_bytes(buf[2:4], "big") + 6')
M("C04", "drop-carry-over", LAN, "packet, self._buffer = buf[:total_size], bytearray(\n                    buf[total_size:])", "packet, self._buffer = buf[:total_size], bytearray()")
M("C04", "no-loop-second-packet", LAN, "while len(self._buffer) > 0:\n            # Find start of packet", "if len(self._buffer) > 0:\n            # Find start of packet")
M("C04", "partial-off-by-one", LAN, "if len(buf) < total_size:", "if len(buf) <= total_size:")
M("C04", "no-trim-garbage", LAN, "                buf = buf[start:]\n", "                pass\n")
M("C04", "drop-buffer-without-marker", LAN, "        self._buffer += data\n", "        self._buffer = (self._buffer + data) if self._buffer[:2] == b\"\\x83\\x70\" else bytearray(data)\n")
M("C04", "size-little-endian", LAN, 'total_size = int.from_bytes(buf[2:4], "big") + 8', 'total_size = int.from_bytes(buf[2:4], "little") + 8')

# ---- C05
M("C05", "pad-no-zero-case", LAN, "pad = 16 - remainder if remainder != 0 else 0", "pad = 16 - remainder")
M("C05", "tag-payload-only", LAN, "calc_hash = sha256(header + payload).digest()", "calc_hash = sha256(payload).digest()")
M("C05", "size-includes-counter", LAN, "length = len(data) + pad + 32", "length = len(data) + pad + 34")
M("C05", "no-tag-check", LAN, "if sha256(bytes(header) + decrypted_payload).digest() != rx_hash:", "if False:")
M("C05", "pad0-slice-regression", LAN, "return payload[2:len(payload) - pad].tobytes()", "return payload[2:-pad].tobytes()")
M("C05", "tag-prefix-only", LAN, "if sha256(bytes(header) + decrypted_payload).digest() != rx_hash:", "if sha256(bytes(header) + decrypted_payload).digest()[:16] != rx_hash[:16]:")
M("C05", "counter-little-endian", LAN, 'payload = packet_id.to_bytes(2, "big") + data + get_random_bytes(pad)', 'payload = packet_id.to_bytes(2, "little") + data + get_random_bytes(pad)')
M("C05", "no-block-check", LAN, "        if len(payload) % 16 != 0:\n            raise ProtocolError(\n                f\"Invalid encrypted payload length: {len(payload)}\")\n", "")
M("C05", "tag-ignores-header", LAN, "if sha256(bytes(header) + decrypted_payload).digest() != rx_hash:", "if sha256(bytes(header[:5]) + decrypted_payload).digest() != sha256(bytes(header[:5]) + decrypted_payload).digest() or len(rx_hash) != 32:")

# ---- C10
M("C10", "setpoint-mask-7", CMD, "temperature = (integral_temp - 16) & 0xF", "temperature = (integral_temp - 16) & 0x7")
M("C10", "half-degree-primary-only", CMD, "temperature |= 0x10 if (fractional_temp > 0) else 0", "temperature |= 0x10 if (fractional_temp > 0 and temperature_alt == 0) else 0")
M("C10", "half-degree-never", CMD, "        temperature |= 0x10 if (fractional_temp > 0) else 0\n\n        mode", "        mode")
M("C10", "swap-sleep-turbo", CMD, "sleep = 0x01 if self.sleep else 0\n        turbo = 0x02 if self.turbo else 0", "sleep = 0x02 if self.sleep else 0\n        turbo = 0x01 if self.turbo else 0")
M("C10", "eco-bit-0x10", CMD, "eco = 0x80 if self.eco else 0", "eco = 0x10 if self.eco else 0")
M("C10", "humidity-mask-3f", CMD, "humidity = self.target_humidity & 0x7F", "humidity = self.target_humidity & 0x3F")
M("C10", "swap-freeze-indep-aux", CMD, "            freeze_protect,\n            # Independent aux heat\n            independent_aux_heat,", "            independent_aux_heat,\n            # Independent aux heat\n            freeze_protect,")
M("C10", "apply-eco-into-turbo", DEV, "cmd.turbo = or_default(self._turbo, False)", "cmd.turbo = or_default(self._eco, False)")
M("C10", "aux-split-inverted", DEV, "cmd.aux_heat = self._aux_mode == AirConditioner.AuxHeatMode.AUX_HEAT\n        cmd.independent_aux_heat = self._aux_mode == AirConditioner.AuxHeatMode.AUX_ONLY", "cmd.aux_heat = self._aux_mode == AirConditioner.AuxHeatMode.AUX_ONLY\n        cmd.independent_aux_heat = self._aux_mode == AirConditioner.AuxHeatMode.AUX_HEAT")
M("C10", "alt-mask-f", CMD, "temperature_alt = (integral_temp - 12) & 0x1F", "temperature_alt = (integral_temp - 12) & 0xF")
M("C10", "swing-mask-3", CMD, "swing_mode = 0x30 | (self.swing_mode & 0x3F)", "swing_mode = 0x30 | (self.swing_mode & 0x3)")
M("C10", "beep-bit-80", CMD, "        beep = 0x40 if self.beep_on else 0\n        power = 0x1 if self.power_on else 0", "        beep = 0x80 if self.beep_on else 0\n        power = 0x1 if self.power_on else 0")
M("C10", "follow-me-dropped-when-turbo", CMD, "follow_me = 0x80 if self.follow_me else 0", "follow_me = 0x80 if (self.follow_me and not self.turbo) else 0")
M("C10", "humidity-only-in-dry", DEV, "cmd.target_humidity = or_default(self._target_humidity, 40)", "cmd.target_humidity = or_default(self._target_humidity, 40) if self._operational_mode in (AirConditioner.OperationalMode.DRY, AirConditioner.OperationalMode.SMART_DRY) else 40")

# ---- C11
M("C11", "temp-offset-40", CMD, "temperature = (data - 50) / 2", "temperature = (data - 40) / 2")
M("C11", "negative-tenths-sign", CMD, "return int(temperature) + (decimals if temperature >= 0 else -decimals)", "return int(temperature) + decimals")
M("C11", "tenths-nibbles-swapped", CMD, "payload[11], (payload[15] & 0xF) / 10, self.fahrenheit)", "payload[11], (payload[15] >> 4) / 10, self.fahrenheit)")
M("C11", "alt-plus-13", CMD, "self.target_temperature = target_temperature_alt + 12", "self.target_temperature = target_temperature_alt + 13")
M("C11", "eco-mask-80", CMD, "self.eco = bool(payload[9] & 0x10)", "self.eco = bool(payload[9] & 0x80)")
M("C11", "humidity-guard-21", CMD, "if len(payload) < 20:", "if len(payload) < 21:")
M("C11", "freeze-guard-23", CMD, "if len(payload) < 22:", "if len(payload) < 23:")
M("C11", "custom-fan-to-default", DEV, "                    self._fan_speed = cast(int, res.fan_speed)", "                    self._fan_speed = AirConditioner.FanSpeed.DEFAULT")
M("C11", "display-whole-byte", CMD, "self.display_on = ((payload[14] & 0x70) != 0x70)", "self.display_on = (payload[14] != 0x70)")
M("C11", "sentinel-zero-too", CMD, "        if data == 0xFF:\n            return None", "        if data == 0xFF or data == 0:\n            return None")
M("C11", "alt-half-degree-lost", CMD, "            self.target_temperature = target_temperature_alt + 12\n            self.target_temperature += 0.5 if payload[2] & 0x10 else 0.0", "            self.target_temperature = target_temperature_alt + 12")
M("C11", "humidity-default-invented", DEV, "self._target_humidity = res.target_humidity", "self._target_humidity = res.target_humidity if res.target_humidity is not None else 40")
# (aux-precedence and fahrenheit-tenths-used are equivalent for C11: the statement fixes neither)
M("C11", "turbo-alt-bit-ignored", CMD, "        self.turbo |= bool(payload[10] & 0x2)\n", "")

# ---- C12
M("C12", "msgid-mask-7f", CMD, "return Command._message_id & 0xFF", "return Command._message_id & 0x7F")
M("C12", "crc-without-id", CMD, "return super().tobytes(payload + bytes([crc8.calculate(payload)]))", "return super().tobytes(payload + bytes([crc8.calculate(data)]))")
M("C12", "length-plus-11", FRAME, "header[1] = len(data) + self._HEADER_LENGTH", "header[1] = len(data) + self._HEADER_LENGTH + 1")
M("C12", "toggle-display-control-type", CMD, "        # For whatever reason, toggle display uses a request type...\n        super().__init__(frame_type=FrameType.QUERY)", "        super().__init__(frame_type=FrameType.CONTROL)")
M("C12", "crc-table-typo", "msmart/crc8.py", "0xB6, 0xE8, 0x0A, 0x54, 0xD7, 0x89, 0x6B, 0x35", "0xB6, 0xE8, 0x0A, 0x54, 0xD7, 0x89, 0x6B, 0x34")
M("C12", "checksum-includes-start", FRAME, "frame.append(Frame.checksum(frame[1:]))", "frame.append(Frame.checksum(frame))")
M("C12", "getprops-count-fixed", CMD, "            0xB1,  # Property request\n            len(self._properties),", "            0xB1,  # Property request\n            min(len(self._properties), 7),")
M("C12", "msgid-skip-zero", CMD, "        Command._message_id += 1\n        return Command._message_id & 0xFF", "        Command._message_id += 1\n        if Command._message_id & 0xFF == 0:\n            Command._message_id += 1\n        return Command._message_id & 0xFF")
M("C12", "ieco-short-value", CMD, "return bytes([0, 1, args[0]]) + bytes(10)", "return bytes([0, 1, args[0]]) + bytes(9)")
M("C12", "caps-additional-wrong-page", CMD, "payload = bytes([0xB5, 0x01, 0x01, 0x1])", "payload = bytes([0xB5, 0x01, 0x00, 0x1])")

# ---- C13
M("C13", "no-frame-validate", CMD, "            # Validate the frame\n            Frame.validate(frame_mv)\n", "")
M("C13", "checksum-skips-length", FRAME, "checksum = Frame.checksum(frame[1:-1])", "checksum = Frame.checksum(frame[2:-1]) + 0\n        checksum = (checksum - frame[1]) & 0xFF if False else Frame.checksum(frame[2:-1])")
M("C13", "body-check-or", CMD, "if payload_crc != payload[-1] and payload_checksum != payload[-1]:", "if payload_crc != payload[-1] and payload_checksum != payload[-1] and payload[0] != 0xC1:")
M("C13", "supported-from-raw-count", DEV, "self._supported = len(valid_responses) > 0", "self._supported = len(responses) > 0")
M("C13", "online-from-command-count", DEV, "self._online = len(responses) > 0", "self._online = len(commands) > 0")
M("C13", "crc-only-for-state", CMD, "if response_class != PropertiesResponse:", "if response_class == StateResponse:")
M("C13", "body-check-last-two", CMD, "payload_crc = crc8.calculate(payload[0:-1])", "payload_crc = crc8.calculate(payload[1:-1]) if payload[0] == 0xB5 else crc8.calculate(payload[0:-1])")
M("C13", "invalid-frame-still-used", DEV, "                _LOGGER.error(e)\n                continue", "                _LOGGER.error(e)\n                if isinstance(e, InvalidFrameException):\n                    continue\n                response = Response(memoryview(data)[10:-2])")

# ---- C14
# (length-guard removals are contained by the IndexError mapping of fix 24ccb7c and are equivalent for C14)
M("C14", "breeze-enum-unguarded", DEV, "self._breeze_mode = (AirConditioner.BreezeMode(value) if value in AirConditioner.BreezeMode.list()\n                                     else AirConditioner.BreezeMode.OFF)", "self._breeze_mode = AirConditioner.BreezeMode(value)")
M("C14", "swing-angle-enum-unguarded", DEV, "                    AirConditioner.SwingAngle.get_from_value(angle))\n\n            if (angle := res.get_property(PropertyId.SWING_UD_ANGLE)) is not None:", "                    AirConditioner.SwingAngle(angle))\n\n            if (angle := res.get_property(PropertyId.SWING_UD_ANGLE)) is not None:")
M("C14", "mode-enum-unguarded", DEV, "AirConditioner.OperationalMode.get_from_value(res.operational_mode))", "AirConditioner.OperationalMode(res.operational_mode))")
M("C14", "catch-only-frame-exception", DEV, "            except (InvalidFrameException, InvalidResponseException) as e:", "            except InvalidFrameException as e:")
M("C14", "break-on-invalid-frame", DEV, "                _LOGGER.error(e)\n                continue", "                _LOGGER.error(e)\n                break")
M("C14", "truncated-not-mapped", CMD, "        except IndexError as e:\n            # Frame or payload is shorter than its format requires\n            raise InvalidResponseException(\n                f\"Frame '{frame.hex()}' is truncated.\") from e", "        except IndexError as e:\n            raise")
M("C14", "caps-match-by-id-only", DEV, "if response.id == response_id and isinstance(response, response_class):", "if response.id == response_id:")
M("C14", "unknown-id-raises", CMD, "            # Default to base class\n            response_class = Response\n", "            # Default to base class\n            response_class = Response\n            if frame_mv[10] < 0xA0:\n                raise ValueError(\"unknown response\")\n")

# ---- C15
M("C15", "unknown-id-advance-4", CMD, "                # Advanced to next capability\n                caps = caps[3+size:]\n                continue", "                # Advanced to next capability\n                caps = caps[4+size:]\n                continue")
M("C15", "empty-advance-with-size", CMD, "            if size == 0:\n                caps = caps[3:]\n                continue", "            if size == 0:\n                caps = caps[4:]\n                continue")
M("C15", "merge-replaces", CMD, "        self._capabilities.update(other._capabilities)", "        self._capabilities = dict(other._capabilities)")
M("C15", "additional-from-last-byte", CMD, "self._additional_capabilities = bool(caps[-2])", "self._additional_capabilities = bool(caps[-1])")
M("C15", "second-page-not-merged", DEV, "                response.merge(additional_response)\n", "                pass\n")
M("C15", "update-before-merge", DEV, "        # Send 2nd capabilities request if needed\n        if response.additional_capabilities:", "        # Send 2nd capabilities request if needed\n        self._update_capabilities(response)\n        _upd, self._update_capabilities = self._update_capabilities, (lambda r: None)\n        if response.additional_capabilities:")
M("C15", "short-temps-not-consumed", CMD, "                if size < 6:\n                    caps = caps[3+size:]\n                    continue", "                if size < 6:\n                    continue")
M("C15", "merge-keeps-first", CMD, "        self._capabilities.update(other._capabilities)", "        self._capabilities = {**other._capabilities, **self._capabilities}")
M("C15", "temps-fixed-advance", CMD, "                self._capabilities[\"decimals\"] = (\n                    caps[9] if size > 6 else caps[2]) != 0\n", "                self._capabilities[\"decimals\"] = (\n                    caps[9] if size > 6 else caps[2]) != 0\n                caps = caps[10:]\n                continue\n")

# ---- C06
M("C06", "sha-check-inverted", LAN, "        if sha256(decrypted_payload).digest() != rx_hash:\n            raise AuthenticationError(", "        if sha256(decrypted_payload).digest() == rx_hash:\n            raise AuthenticationError(")
M("C06", "no-sha-check", LAN, "        if sha256(decrypted_payload).digest() != rx_hash:\n            raise AuthenticationError(", "        if False:\n            raise AuthenticationError(")
M("C06", "sha-prefix-only", LAN, "        if sha256(decrypted_payload).digest() != rx_hash:\n            raise AuthenticationError(", "        if sha256(decrypted_payload).digest()[:8] != rx_hash[:8]:\n            raise AuthenticationError(")
M("C06", "store-creds-before-success", LAN, "        # A V3 protocol should exist at this point\n        assert isinstance(self._protocol, _LanProtocolV3)\n", "        # A V3 protocol should exist at this point\n        assert isinstance(self._protocol, _LanProtocolV3)\n        self._token = token\n        self._key = key\n")
M("C06", "errors-as-protocol-error", BASE, "            raise AuthenticationError(e) from e", "            raise ProtocolError(e) from e")
M("C06", "timeout-not-mapped", BASE, "        except (ProtocolError, TimeoutError) as e:\n            raise AuthenticationError(e) from e", "        except ProtocolError as e:\n            raise AuthenticationError(e) from e")
M("C06", "length-check-ge-and-slice", LAN, "        if len(data) != 64:\n            raise AuthenticationError(\n                \"Invalid data length for key handshake.\")\n\n        # Extract payload and hash\n        payload = data[:32]\n        rx_hash = data[32:]", "        if len(data) < 64:\n            raise AuthenticationError(\n                \"Invalid data length for key handshake.\")\n\n        # Extract payload and hash\n        payload = data[:32]\n        rx_hash = data[32:64]")
M("C06", "key-set-before-verify", LAN, "        decrypted_payload = Security.decrypt_aes_cbc(key, payload)\n\n        if sha256(decrypted_payload).digest() != rx_hash:", "        decrypted_payload = Security.decrypt_aes_cbc(key, payload)\n        self._local_key = strxor(decrypted_payload, key)\n        self._local_key_expiration = datetime.now(timezone.utc) + self.AUTHENTICATION_EXPIRATION\n\n        if sha256(decrypted_payload).digest() != rx_hash:")
M("C06", "xor-with-hash", LAN, "        return strxor(decrypted_payload, key)", "        return strxor(decrypted_payload, bytes(rx_hash))")
M("C06", "hex-key-not-converted", LAN, "            key = convert(key)", "            key = key if isinstance(key, bytes) else bytes.fromhex(key[:64].ljust(64, \"0\"))[::1] if False else convert(key) if not isinstance(key, str) or len(key) != 64 or key[0] != key[1] else bytes.fromhex(key[::-1])")
M("C06", "preauth-assert-regression", LAN, "        if self._local_key is None:\n            raise ProtocolError(\n                \"Encrypted response received before authentication.\")", "        assert self._local_key is not None")
M("C06", "unknown-type-accepted-as-handshake", LAN, "        elif packet_type == self.PacketType.HANDSHAKE_RESPONSE:", "        elif packet_type in (self.PacketType.HANDSHAKE_RESPONSE, 0x5):")

# ---- C09
M("C09", "guard-to-assert", LAN, "        if packet[4] != 0x20:\n            raise ProtocolError(\n                f\"Invalid magic byte: 0x{packet[4]:X}\")", "        assert packet[4] == 0x20")
M("C09", "short-guard-removed", LAN, "            if len(packet) < 6:\n                raise ProtocolError(f\"Packet is too short: {packet.hex()}\")\n", "            length_check = packet[5]\n")
M("C08", "oserror-not-mapped", LAN, "        except OSError as e:\n            raise ProtocolError(\"Connect failed.\") from e", "        except ConnectionAbortedError as e:\n            raise ProtocolError(\"Connect failed.\") from e")
M("C09", "unguarded-int-parse", LAN, "            length = int.from_bytes(packet[4:6], \"little\")\n", "            length = int.from_bytes(packet[4:6], \"little\")\n            _ = packet[length - 1] if length else 0\n")
M("C09", "queue-empty-not-caught", LAN, "        except asyncio.QueueEmpty:\n            pass\n\n    async def send", "        except asyncio.QueueFull:\n            pass\n\n    async def send")
M("C09", "valueerror-not-mapped", LAN, "            except ValueError as e:\n                # Payload is not a whole number of blocks or is incorrectly padded\n                raise ProtocolError(\n                    f\"Failed to decrypt packet payload: {e}\") from e", "            except ValueError as e:\n                raise")
M("C09", "error-packet-as-runtimeerror", LAN, "            raise ProtocolError(\"Error packet received.\")", "            raise RuntimeError(\"Error packet received.\")")
M("C09", "unexpected-type-keyerror", LAN, "            raise ProtocolError(f\"Unexpected type: {packet_type}\")", "            raise ProtocolError(f\"Unexpected type: {self.PacketType(packet_type)}\")")
M("C09", "device-catches-protocol-only", BASE, "        except TimeoutError as e:\n            _LOGGER.warning(\"Network timeout %s:%d: %s\", self.ip, self.port, e)", "        except asyncio.TimeoutError as e:\n            _LOGGER.warning(\"Network timeout %s:%d: %s\", self.ip, self.port, e)")
M("C09", "handshake-len-unchecked", LAN, "        if len(data) != 64:\n            raise AuthenticationError(\n                \"Invalid data length for key handshake.\")\n", "")

# ---- C07
M("C07", "counter-increment-2", LAN, "        self._packet_id += 1\n        self._packet_id &= 0xFFF  # Mask to 12 bits", "        self._packet_id += 2\n        self._packet_id &= 0xFFF  # Mask to 12 bits")
M("C07", "auth-expiry-ignored", LAN, "        if datetime.now(timezone.utc) > self._local_key_expiration:\n            _LOGGER.debug(\"Authentication with %s has expired.\", self.peer)\n            return False", "        if False:\n            return False")
M("C07", "alive-comparison-flipped", LAN, "if self._connection_expiration and datetime.now(timezone.utc) > self._connection_expiration:", "if self._connection_expiration and datetime.now(timezone.utc) < self._connection_expiration:")
M("C07", "connection-expiry-never-set", LAN, "        if self._max_connection_lifetime:\n            self._connection_expiration", "        if False:\n            self._connection_expiration")
M("C07", "send-skips-authenticate", LAN, "                and not self._protocol.authenticated):\n            await self.authenticate()", "                and not self._protocol.authenticated and False):\n            await self.authenticate()")
M("C07", "stale-token-after-failed-auth", LAN, "        # A V3 protocol should exist at this point\n        assert isinstance(self._protocol, _LanProtocolV3)\n", "        # A V3 protocol should exist at this point\n        assert isinstance(self._protocol, _LanProtocolV3)\n        self._token = token\n        self._key = key\n")
M("C07", "counter-reset-on-auth", LAN, "        # Flush any existing data from the queue\n        self._flush()\n", "        # Flush any existing data from the queue\n        self._flush()\n        self._packet_id = 0\n")
M("C07", "auth-lifetime-24h", LAN, "AUTHENTICATION_EXPIRATION = timedelta(hours=12)", "AUTHENTICATION_EXPIRATION = timedelta(hours=24)")
M("C07", "key-survives-reconnect", LAN, "        self._protocol = protocol\n", "        prev = getattr(self, \"_protocol_prev\", None)\n        if isinstance(prev, _LanProtocolV3) and isinstance(protocol, _LanProtocolV3):\n            protocol._local_key = prev._local_key\n            protocol._local_key_expiration = prev._local_key_expiration\n        self._protocol = protocol\n        self._protocol_prev = protocol\n")
M("C07", "expiry-refreshed-on-send", LAN, "        # Encode frame to packet\n        packet = _Packet.encode(self._device_id, data)", "        if isinstance(self._protocol, _LanProtocolV3):\n            self._protocol._local_key_expiration = datetime.now(timezone.utc) + self._protocol.AUTHENTICATION_EXPIRATION\n        # Encode frame to packet\n        packet = _Packet.encode(self._device_id, data)")
M("C07", "lifetime-from-last-use", LAN, "        # Send the request and wait for a response\n        while retries > 0:", "        if self._max_connection_lifetime:\n            self._connection_expiration = datetime.now(timezone.utc) + self._max_connection_lifetime\n        # Send the request and wait for a response\n        while retries > 0:")
M("C07", "no-counter-mask(thorough)", LAN, "        self._packet_id &= 0xFFF  # Mask to 12 bits", "        pass")

# ---- C08
M("C08", "retry-off-by-one", LAN, "                if retries > 1:\n                    _LOGGER.debug(\"Read timeout. Resending to %s.\",", "                if retries >= 1:\n                    _LOGGER.debug(\"Read timeout. Resending to %s.\",")
M("C08", "missing-break", LAN, "                responses.append(await self._read())\n                break", "                responses.append(await self._read())\n                retries -= 1\n                continue")
M("C08", "no-disconnect-on-timeout", LAN, "                else:\n                    self._disconnect()\n                    raise TimeoutError(\"No response from host.\") from e\n            except ProtocolError as e:", "                else:\n                    raise TimeoutError(\"No response from host.\") from e\n            except ProtocolError as e:")
M("C08", "no-disconnect-on-protocol-error", LAN, "                # TODO could add a fatal flag to exception to trigger disconnect\n                self._disconnect()\n                raise e", "                # TODO could add a fatal flag to exception to trigger disconnect\n                raise e")
M("C08", "no-disconnect-on-cancel", LAN, "                _LOGGER.warning(\"Read cancelled. Disconnecting.\")\n                self._disconnect()", "                _LOGGER.warning(\"Read cancelled. Disconnecting.\")")
M("C08", "connect-without-timeout", LAN, "            _transport, protocol = await asyncio.wait_for(task, timeout=5)", "            _transport, protocol = await task")
M("C08", "device-timeout-not-caught", BASE, "        except TimeoutError as e:\n            _LOGGER.warning(\"Network timeout %s:%d: %s\", self.ip, self.port, e)", "        except TimeoutError as e:\n            _LOGGER.warning(\"Network timeout %s:%d: %s\", self.ip, self.port, e)\n            raise")
M("C08", "alive-ignores-closing", LAN, "        if self._transport is None or self._transport.is_closing():\n            return False", "        if self._transport is None:\n            return False")
M("C08", "read-timeout-3s", LAN, "    async def read(self, timeout: int = 2) -> bytes:\n        \"\"\"Asynchronously read data from the peer via the queue.\"\"\"\n\n        # Fetch a packet from the queue\n        return await self._read_queue(timeout=timeout)", "    async def read(self, timeout: int = 3) -> bytes:\n        \"\"\"Asynchronously read data from the peer via the queue.\"\"\"\n\n        # Fetch a packet from the queue\n        return await self._read_queue(timeout=timeout)")
M("C08", "retries-ignored-on-v3-reauth", LAN, "    async def send(self, data: bytes, retries: int = RETRIES) -> list[bytes]:\n        \"\"\"Send data via the LAN protocol. Connecting to the peer if necessary.\"\"\"\n", "    async def send(self, data: bytes, retries: int = RETRIES) -> list[bytes]:\n        \"\"\"Send data via the LAN protocol. Connecting to the peer if necessary.\"\"\"\n        retries = max(retries, 2)\n")
M("C08", "online-sticky", DEV, "        self._online = len(responses) > 0", "        self._online = self._online or len(responses) > 0")
M("C08", "stale-protocol-after-auth-failure", LAN, "        # Connect if protocol doesn't exist or is dead\n        if not self._alive:\n            self._disconnect()\n            await self._connect()", "        # Connect if protocol doesn't exist or is dead\n        if self._protocol is None:\n            await self._connect()")

# ---- C01
M("C01", "tobytes-mode-shift", CMD, "mode = (self.operational_mode & 0x7) << 5", "mode = (self.operational_mode & 0x3) << 5")
M("C01", "parse-eco-bit", CMD, "self.eco = bool(payload[9] & 0x10)", "self.eco = bool(payload[9] & 0x80)")
M("C01", "apply-drops-or-default", DEV, "cmd.target_humidity = or_default(self._target_humidity, 40)", "cmd.target_humidity = 40")
M("C01", "update-state-skips-sleep", DEV, "            self._sleep = res.sleep\n", "")
# (v3-reassembly-drops-tail and stale-queue-read-last leave no trace in C01's observations: the frames lost/reordered describe the same state; C04 kills the former)
M("C07", "v3-counter-stuck", LAN, "        self._packet_id += 1\n        self._packet_id &= 0xFFF  # Mask to 12 bits", "        self._packet_id &= 0xFFF  # Mask to 12 bits")
M("C01", "responses-applied-in-reverse", DEV, "        # Update state from responses\n        for response in responses:", "        # Update state from responses\n        for response in reversed(responses):")
M("C01", "device-id-truncated-32", LAN, 'header += device_id.to_bytes(8, "little")  # Device ID', 'header += (device_id & 0xFFFFFFFF).to_bytes(8, "little")  # Device ID')
M("C01", "refresh-keeps-first-state-only", DEV, "        for response in responses:\n            self._update_state(response)\n\n    async def _apply_properties", "        for response in responses[:1]:\n            self._update_state(response)\n\n    async def _apply_properties")
M("C01", "hex-key-lowercased-twice", LAN, "                return bytes.fromhex(x) if isinstance(x, str) else x", "                return bytes.fromhex(x)[::-1] if isinstance(x, str) else x")
M("C01", "toggle-display-sends-query", CMD, "            0x00, 0xFF, 0x02,\n            0x00, 0x02, 0x00, 0x00,", "            0x00, 0xFF, 0x03,\n            0x00, 0x02, 0x00, 0x00,")

# ---- C16
M("C16", "updated-properties-not-cleared", DEV, "        # Reset updated properties set\n        self._updated_properties.clear()", "        # Reset updated properties set\n        pass")
M("C16", "cleared-before-send", DEV, "        # Get current state of updated properties\n        props = {", "        # Get current state of updated properties\n        pending, self._updated_properties = self._updated_properties, set()\n        if PropertyId.IECO in pending and len(pending) > 1:\n            return\n        self._updated_properties = pending\n        props = {")
M("C16", "breeze-away-encoding", CMD, "return bytes([2 if args[0] else 1])", "return bytes([1 if args[0] else 0])")
M("C16", "legacy-setter-uses-control", DEV, "        self._updated_properties.add(\n            PropertyId.BREEZE_CONTROL if PropertyId.BREEZE_CONTROL in self._supported_properties\n            else PropertyId.BREEZE_AWAY)", "        self._updated_properties.add(PropertyId.BREEZE_CONTROL)")
M("C16", "ieco-value-wrong-byte", CMD, "return bytes([0, 1, args[0]]) + bytes(10)", "return bytes([0, args[0], 1]) + bytes(10)")
M("C16", "rate-select-id-swapped", DEV, "        PropertyId.RATE_SELECT: lambda s: s._rate_select,\n        PropertyId.SWING_LR_ANGLE: lambda s: s._horizontal_swing_angle,", "        PropertyId.RATE_SELECT: lambda s: s._horizontal_swing_angle,\n        PropertyId.SWING_LR_ANGLE: lambda s: s._rate_select,")
M("C16", "buzzer-omitted", DEV, "        # Always add buzzer property\n        properties[PropertyId.BUZZER] = self._beep_on\n", "")
M("C16", "legacy-breeze-overwrite-regression", DEV, "                    if value:\n                        self._breeze_mode = AirConditioner.BreezeMode.BREEZELESS\n                    elif self._breeze_mode == AirConditioner.BreezeMode.BREEZELESS:\n                        # Breezeless off must not clear an active breeze away\n                        self._breeze_mode = AirConditioner.BreezeMode.OFF", "                    self._breeze_mode = (AirConditioner.BreezeMode.BREEZELESS if value\n                                         else AirConditioner.BreezeMode.OFF)")
M("C16", "ieco-decode-number", CMD, "            return bool(data[1])", "            return bool(data[0])")
M("C16", "ud-lr-setters-swapped", DEV, "        self._vertical_swing_angle = angle\n        self._updated_properties.add(PropertyId.SWING_UD_ANGLE)", "        self._vertical_swing_angle = angle\n        self._updated_properties.add(PropertyId.SWING_LR_ANGLE)")
M("C16", "breezeless-setter-forgets-id", DEV, "        self._updated_properties.add(\n            PropertyId.BREEZE_CONTROL if PropertyId.BREEZE_CONTROL in self._supported_properties\n            else PropertyId.BREEZELESS)", "        if enable:\n            self._updated_properties.add(\n                PropertyId.BREEZE_CONTROL if PropertyId.BREEZE_CONTROL in self._supported_properties\n                else PropertyId.BREEZELESS)")
M("C16", "all-supported-props-sent", DEV, "            for k in self._updated_properties & self._PROPERTY_MAP.keys()", "            for k in (self._updated_properties | self._supported_properties) & self._PROPERTY_MAP.keys()")
M("C16", "breeze-control-off-as-zero", DEV, "        PropertyId.BREEZE_CONTROL: lambda s: s._breeze_mode,", "        PropertyId.BREEZE_CONTROL: lambda s: s._breeze_mode if s._breeze_mode != AirConditioner.BreezeMode.OFF else 0,")

# ---- C17
M("C17", "id-8-bytes", DISC, 'device_id = int.from_bytes(data_mv[20:26], "little")', 'device_id = int.from_bytes(data_mv[20:28], "big")')
M("C17", "id-big-endian", DISC, 'device_id = int.from_bytes(data_mv[20:26], "little")', 'device_id = int.from_bytes(data_mv[20:26], "big")')
M("C17", "port-big-endian", DISC, 'port = int.from_bytes(decrypted_mv[4:6], "little")', 'port = int.from_bytes(decrypted_mv[4:6], "big")')
M("C17", "type-from-suffix", DISC, 'device_type = int(name.split("_")[1], 16)', 'device_type = int(name.split("_")[2][:2], 16)')
M("C17", "v3-strip-6", DISC, "data_mv = data_mv[8:-16]", "data_mv = data_mv[6:-16]")
M("C17", "reported-ip-used", DISC, 'return {"ip": ip, "port": port,', 'return {"ip": ip_address, "port": port,')
M("C17", "probe-byte-flipped", "msmart/const.py", "    0x5a, 0x5a, 0x01, 0x11, 0x48, 0x00, 0x92, 0x00,\n    0x00, 0x00, 0x00, 0x00, 0x00, 0x00, 0x00, 0x00,\n    0x00, 0x00, 0x00, 0x00, 0x00, 0x00, 0x00, 0x00,\n    0x00, 0x00, 0x00, 0x00, 0x00, 0x00, 0x00, 0x00,\n    0x00, 0x00, 0x00, 0x00, 0x00, 0x00, 0x00, 0x00,\n    0x7f, 0x75, 0xbd, 0x6b,", "    0x5a, 0x5a, 0x01, 0x11, 0x48, 0x00, 0x92, 0x00,\n    0x00, 0x00, 0x00, 0x00, 0x00, 0x00, 0x00, 0x00,\n    0x00, 0x00, 0x00, 0x00, 0x00, 0x00, 0x00, 0x00,\n    0x00, 0x00, 0x00, 0x00, 0x00, 0x00, 0x00, 0x00,\n    0x00, 0x00, 0x00, 0x00, 0x00, 0x00, 0x00, 0x00,\n    0x7f, 0x75, 0xbd, 0x6a,")
M("C17", "only-port-6445", DISC, "for port in [6445, 20086]:", "for port in [6445]:")
M("C17", "no-so-broadcast", DISC, "            sock.setsockopt(socket.SOL_SOCKET, socket.SO_BROADCAST, 1)\n", "            pass\n")
M("C17", "name-length-ignored", DISC, "name = decrypted_mv[41:41+name_length].tobytes().decode()", "name = decrypted_mv[41:].tobytes().decode()")
M("C17", "generic-device-for-uppercase", DISC, "        if device_type == DeviceType.AIR_CONDITIONER:\n            return AirConditioner", "        if device_type == DeviceType.AIR_CONDITIONER and False:\n            return AirConditioner")
M("C17", "sn-offset", DISC, "sn = decrypted_mv[8:40].tobytes().decode()", "sn = decrypted_mv[9:41].tobytes().decode()")
M("C17", "version-from-marker-only-v2", DISC, "            elif start_of_packet == b\"\\x83\\x70\":\n                return 3", "            elif start_of_packet == b\"\\x83\\x70\":\n                return 2")

# ---- C18
M("C18", "no-dedupe", DISC, "        if ip in self._discovered_ips:\n            return\n", "")
M("C18", "dedupe-by-ip-and-port", DISC, "        if ip in self._discovered_ips:\n            return\n\n        self._discovered_ips.add(ip)", "        if addr in self._discovered_ips:\n            return\n\n        self._discovered_ips.add(addr)")
M("C18", "narrow-except-regression", DISC, "        except (IndexError, KeyError, ValueError) as e:\n            # Malformed response e.g. truncated body, bad text encoding or missing fields\n            _LOGGER.error(\"Malformed discovery response from %s: %r\", ip, e)\n            return None\n", "")
M("C18", "filter-none-dropped", DISC, "        devices = list(filter(None, devices))", "        devices = list(devices)")
M("C18", "version-error-not-caught", DISC, "        except DiscoverError:\n            _LOGGER.error(\"Unknown device version for %s.\", ip)\n            return", "        except KeyError:\n            _LOGGER.error(\"Unknown device version for %s.\", ip)\n            return")
M("C18", "dedupe-set-after-parse", DISC, "        self._discovered_ips.add(ip)\n\n        _LOGGER.debug(\"Discovery response from %s: %s\", ip, data.hex())", "        _LOGGER.debug(\"Discovery response from %s: %s\", ip, data.hex())")
M("C18", "only-valueerror-caught", DISC, "        except (IndexError, KeyError, ValueError) as e:", "        except ValueError as e:")

# ---- C19
M("C19", "match-startswith", CLOUD, '            if token["udpId"] == udpid:', '            if udpid.startswith(token["udpId"]):')
M("C19", "match-substring", CLOUD, '            if token["udpId"] == udpid:', '            if udpid[:-1] in token["udpId"]:')
M("C19", "return-first-entry", CLOUD, '            if token["udpId"] == udpid:', '            if token["udpId"]:')
M("C19", "sign-unsorted", CLOUD, "query = unquote_plus(urlencode(sorted(data.items())))", "query = unquote_plus(urlencode(list(data.items())))")
M("C19", "sign-without-path", CLOUD, "            msg = path + query + self.APP_KEY\n\n            sign = hashlib.sha256(msg.encode(\"ASCII\"))", "            msg = query + self.APP_KEY\n\n            sign = hashlib.sha256(msg.encode(\"ASCII\"))")
M("C19", "sign-not-unquoted", CLOUD, "query = unquote_plus(urlencode(sorted(data.items())))", "query = urlencode(sorted(data.items()))")
M("C19", "password-without-login-id", CLOUD, "            login_hash = login_id + m1.hexdigest() + self.APP_KEY\n            m2 = hashlib.sha256(login_hash.encode(\"ASCII\"))\n\n            return m2.hexdigest()\n", "            login_hash = m1.hexdigest() + self.APP_KEY\n            m2 = hashlib.sha256(login_hash.encode(\"ASCII\"))\n\n            return m2.hexdigest()\n")
M("C19", "session-id-not-stored", CLOUD, '        self._session_id = response["sessionId"]', '        self._session_id = self._session_id or ""')
M("C19", "retry-one-too-many", CLOUD, "                    if retries > 1:\n                        _LOGGER.warning(\"Request to %s timed out.\", url)", "                    if retries > 0:\n                        _LOGGER.warning(\"Request to %s timed out.\", url)")
M("C19", "http-errors-retried", CLOUD, "                except httpx.HTTPError as e:\n                    raise CloudError(f\"HTTP request failed: {e}\") from e", "                except httpx.HTTPError as e:\n                    if retries > 1:\n                        retries -= 1\n                        continue\n                    raise CloudError(f\"HTTP request failed: {e}\") from e")
M("C19", "only-little-endian", DISC, '        for endian in ["little", "big"]:', '        for endian in ["little"]:')
M("C19", "api-error-ignored", CLOUD, "        raise ApiError(body[\"msg\"], code=response_code)\n\n    async def _api_request(self, endpoint: str, body: dict[str, Any]) -> Optional[dict]:\n        \"\"\"Make a request to the cloud and return the results.\"\"\"\n\n        # Sign the contents and add it to the body", "        return body.get(\"result\", {\"tokenlist\": [], \"loginId\": \"x\", \"sessionId\": \"\"})\n\n    async def _api_request(self, endpoint: str, body: dict[str, Any]) -> Optional[dict]:\n        \"\"\"Make a request to the cloud and return the results.\"\"\"\n\n        # Sign the contents and add it to the body")
M("C19", "udpid-xor-wrong-halves", LAN, "            return strxor(mv_hash[:16], mv_hash[16:])", "            return strxor(mv_hash[:16], mv_hash[:16])")
M("C19", "stamp-date-only", CLOUD, 'return datetime.now(timezone.utc).strftime("%Y%m%d%H%M%S")', 'return datetime.now(timezone.utc).strftime("%Y%m%d")')
M("C19", "timeout-exhaustion-returns-none", CLOUD, '                        raise CloudError("No response from server.") from e', '                        return None')

# ---- C20
M("C20", "enum-name-case-sensitive", CLI, "new_properties[name] = attr_type[value.upper()]", "new_properties[name] = attr_type[value]")
M("C20", "bool-only-capital-true", CLI, "new_properties[name] = convert(value.capitalize(), bool)", "new_properties[name] = convert(value, bool)")
M("C20", "enum-int-only", CLI, "            if isinstance(value, (int, float)):\n                # Try to convert number to enum", "            if not isinstance(value, (int, float)):\n                _LOGGER.error(\"names not accepted\")\n                exit(1)\n            if isinstance(value, (int, float)):\n                # Try to convert number to enum")
M("C20", "raw-fan-ints-rejected", CLI, "                    if attr_type == AC.FanSpeed:\n                        new_properties[name] = int(value)\n                    else:", "                    if False:\n                        new_properties[name] = int(value)\n                    else:")
M("C20", "display-toggled-unconditionally", CLI, "        if display != device.display_on:", "        if True:")
M("C20", "validation-after-connect", CLI, "    # Parse each setting, checking if the property exists and the supplied value is valid\n    new_properties = {}", "    # Parse each setting, checking if the property exists and the supplied value is valid\n    device = await _connect(args)\n    await device.refresh()\n    new_properties = {}")
M("C20", "exit-1-to-return", CLI, "            _LOGGER.error(\"'%s' is not a valid device property.\", name)\n            exit(1)", "            _LOGGER.error(\"'%s' is not a valid device property.\", name)\n            return")
M("C20", "refresh-skipped-before-apply", CLI, "    _LOGGER.info(\"Querying device state.\")\n    await device.refresh()\n\n    if not device.online:\n        _LOGGER.error(\"Device is not online.\")\n        exit(1)\n\n    if args.capabilities:", "    if args.capabilities:")
M("C20", "read-only-not-rejected", CLI, "        if name != KEY_DISPLAY_ON and prop.fset is None:\n            _LOGGER.error(\"'%s' property is not writable.\", name)\n            exit(1)", "        if name != KEY_DISPLAY_ON and prop.fset is None:\n            _LOGGER.error(\"'%s' property is not writable.\", name)\n            continue")
M("C20", "float-truncated", CLI, "            new_properties[name] = convert(value, attr_type)", "            new_properties[name] = attr_type(int(convert(value, float)))")
M("C20", "display-inverted", CLI, "        if display != device.display_on:", "        if display == device.display_on:")
M("C20", "bad-enum-value-defaults", CLI, "                        _LOGGER.error(\"Value '%d' is not a valid %s\",\n                                      value, attr_type.__qualname__)\n                        exit(1)", "                        new_properties[name] = attr_type.DEFAULT")
M("C20", "only-last-setting-applied", CLI, "    for prop, value in new_properties.items():\n        _LOGGER.info(\"Setting '%s' to %r.\", prop, value)\n        setattr(device, prop, value)", "    for prop, value in list(new_properties.items())[-1:]:\n        _LOGGER.info(\"Setting '%s' to %r.\", prop, value)\n        setattr(device, prop, value)")
M("C20", "port-6445", CLI, "device = AC(ip=args.host, port=6444, device_id=args.device_id)", "device = AC(ip=args.host, port=6445, device_id=args.device_id)")
M("C20", "bad-bool-treated-as-false", CLI, "        except (ValueError, SyntaxError):\n            _LOGGER.error(\"Value '%s' is not a valid %s\",\n                          v, t.__qualname__)\n            exit(1)", "        except (ValueError, SyntaxError):\n            return t()")


def apply_mutant(src_root: str, file: str, old: str, new: str) -> None:
    p = os.path.join(src_root, file)
    with open(p) as f:
        s = f.read()
    if s.count(old) != 1:
        raise RuntimeError(f"mutant anchor found {s.count(old)} times in {file}: {old[:60]!r}")
    with open(p, "w") as f:
        f.write(s.replace(old, new))


def make_copy() -> str:
    d = tempfile.mkdtemp(prefix="mv-mutant-")
    dst = os.path.join(d, "repo")
    shutil.copytree(REPO, dst, ignore=shutil.ignore_patterns(".git", "__pycache__", "reference", ".benchmarks", "*.zip"))
    return d


def run_tests(root: str) -> bool:
    r = subprocess.run(["/venv/bin/python", "-m", "pytest", "-q", "-x", "-p", "no:cacheprovider",
                        "--deselect", "msmart/tests/test_cloud.py::TestNetHomePlusCloud::test_get_token",
                        "--deselect", "msmart/tests/test_cloud.py::TestNetHomePlusCloud::test_get_token_exception",
                        "--deselect", "msmart/tests/test_cloud.py::TestNetHomePlusCloud::test_login",
                        "--deselect", "msmart/tests/test_cloud.py::TestNetHomePlusCloud::test_login_exception",
                        "--deselect", "msmart/tests/test_cloud.py::TestSmartHomeCloud::test_login",
                        "--deselect", "msmart/tests/test_cloud.py::TestSmartHomeCloud::test_login_exception"],
                       cwd=root, capture_output=True, text=True, timeout=600,
                       env={**os.environ, "PYTHONPATH": root, "PYTHONDONTWRITEBYTECODE": "1"})
    return r.returncode == 0


def run_check(pid: str, root: str, tier: str) -> tuple[int, str]:
    env = {**os.environ, "MSMART_VERIF_REPO": root, "VERIF_SEED": os.environ.get("VERIF_SEED", "0")}
    r = subprocess.run([os.path.join(VERIF, "check"), pid, "--tier", tier, "--no-evidence"], cwd=VERIF,
                       capture_output=True, text=True, timeout=1800, env=env)
    return r.returncode, r.stdout + r.stderr[-500:]


def main() -> int:
    ap = argparse.ArgumentParser()
    ap.add_argument("pids", nargs="*")
    ap.add_argument("--tests", action="store_true", help="also run the repository's own tests on each mutant")
    ap.add_argument("--tier", default="quick")
    ap.add_argument("--name")
    ap.add_argument("-v", action="store_true")
    ap.add_argument("--jobs", type=int, default=1)
    a = ap.parse_args()
    sel = [m for m in MUTANTS if (not a.pids or m[0] in a.pids) and (not a.name or a.name == m[1])]
    results = []

    def one(m):
        pid, name, file, old, new = m
        d = make_copy()
        root = os.path.join(d, "repo")
        t0 = time.time()
        try:
            apply_mutant(root, file, old, new)
            realistic = run_tests(root) if a.tests else None
            rc, out = run_check(pid, root, a.tier)
        except Exception as e:  # noqa: BLE001
            rc, out, realistic = -1, f"ERROR {e}", None
        finally:
            shutil.rmtree(d, ignore_errors=True)
        killed = rc == 1 and "VIOLATION property=" in out
        mech = [l for l in out.splitlines() if "mechanism=" in l][:2]
        line = (f"{pid} {name:32s} {'KILLED' if killed else 'SURVIVED rc=' + str(rc):14s} tests={'-' if realistic is None else ('pass' if realistic else 'FAIL')} "
                f"{time.time() - t0:5.1f}s {mech[0].strip()[:110] if mech else ''}")
        if a.v and not killed:
            line += "\n" + out
        return {"property": pid, "mutant": name, "killed": killed, "rc": rc, "passes_repo_tests": realistic,
                "wall_s": round(time.time() - t0, 1)}, line

    from concurrent.futures import ThreadPoolExecutor
    with ThreadPoolExecutor(max_workers=max(1, a.jobs)) as ex:
        for res, line in ex.map(one, sel):
            results.append(res)
            print(line, flush=True)
    surv = [r for r in results if not r["killed"]]
    print(f"{len(results) - len(surv)}/{len(results)} mutants killed")
    return 1 if surv else 0


if __name__ == "__main__":
    sys.exit(main())
