"""Run the checks against the seeded breakages kept under /verif/seeded/<name>/ (patch.diff + meta.json).

    python -m mv.selftest.seeded [name ...] [--all-checks] [--tier quick]

Each patch is applied to a scratch copy of /repo (never to /repo itself); the copy is removed afterwards.
"""
from __future__ import annotations

import argparse
import json
import os
import shutil
import subprocess
import sys
import tempfile
import time

VERIF = os.path.dirname(os.path.dirname(os.path.dirname(os.path.abspath(__file__))))
SEEDED = os.path.join(VERIF, "seeded")


def make_copy():
    d = tempfile.mkdtemp(prefix="mv-seeded-")
    dst = os.path.join(d, "repo")
    shutil.copytree("/repo", dst, ignore=shutil.ignore_patterns(".git", "__pycache__", "reference", ".benchmarks"))
    return d, dst


def main():
    ap = argparse.ArgumentParser()
    ap.add_argument("names", nargs="*")
    ap.add_argument("--all-checks", action="store_true")
    ap.add_argument("--tier", default="quick")
    ap.add_argument("--jobs", type=int, default=8)
    a = ap.parse_args()
    names = a.names or sorted(n for n in os.listdir(SEEDED) if os.path.isdir(os.path.join(SEEDED, n)))
    allp = [f"C{i:02d}" for i in range(1, 21)]
    from concurrent.futures import ThreadPoolExecutor

    def one(name):
        import io
        buf = io.StringIO()
        rc = _one(name, a, allp, buf)
        return name, rc, buf.getvalue()

    missed = 0
    with ThreadPoolExecutor(max_workers=a.jobs) as ex:
        for name, rc, out in ex.map(one, names):
            sys.stdout.write(out)
            sys.stdout.flush()
            missed += rc
    return 1 if missed else 0


def _one(name, a, allp, out):
    missed = 0
    if True:
        d = os.path.join(SEEDED, name)
        meta = json.load(open(os.path.join(d, "meta.json")))
        tmp, root = make_copy()
        try:
            r = subprocess.run(["git", "apply", "--whitespace=nowarn", os.path.join(d, "patch.diff")], cwd=root, capture_output=True, text=True)
            if r.returncode != 0:
                print(f"{name}: patch does not apply: {r.stderr[:300]}", file=out)
                return 1
            pids = allp if a.all_checks else [meta["property"]] + list(meta.get("accept_cross", []))
            caught = []
            for pid in pids:
                t0 = time.time()
                env = {**os.environ, "MSMART_VERIF_REPO": root}
                rr = subprocess.run([os.path.join(VERIF, "check"), pid, "--tier", a.tier, "--no-evidence"], cwd=VERIF, capture_output=True,
                                    text=True, timeout=3600, env=env)
                mech = [l.strip() for l in rr.stdout.splitlines() if l.strip().startswith("mechanism=")]
                if rr.returncode == 1 and "VIOLATION property=" in rr.stdout:
                    caught.append((pid, mech[0][:160] if mech else ""))
                elif pid == meta["property"]:
                    print(f"   {pid} rc={rr.returncode} {rr.stdout.splitlines()[-1] if rr.stdout else rr.stderr[-200:]}", file=out)
            own = [c for c in caught if c[0] == meta["property"] or c[0] in meta.get("accept_cross", [])]
            if not own and meta.get("out_of_domain"):
                # the change only misbehaves for callers outside the documented domain of the API; recorded, not counted as a miss
                print(f"{name:28s} property={meta['property']} OUT-OF-DOMAIN (not driven): {meta['out_of_domain']}", file=out)
                return 0
            print(f"{name:28s} property={meta['property']} {'CAUGHT' if own else 'MISSED'} by-own-check; all catching: {[c[0] for c in caught]}", file=out)
            for c in caught[:3]:
                print(f"      {c[0]}: {c[1]}", file=out)
            if not own:
                missed += 1
        finally:
            shutil.rmtree(tmp, ignore_errors=True)
    return missed


if __name__ == "__main__":
    sys.exit(main())
