"""Ingest several seeded changes from one spec file:  python -m mv.selftest.ingest_bulk spec.json

spec = [{"dir": "/tmp/wt3/C01", "patch": "change.patch", "demo": "demo.py", "name": "C01-...", "property": "C01",
         "needs": "...", "summary": "..."}, ...]
"""
import json
import subprocess
import sys

spec = json.load(open(sys.argv[1]))
ok = 0
for e in spec:
    r = subprocess.run([sys.executable, "-m", "mv.selftest.ingest_seed", e["dir"], e["patch"], e["demo"], e["name"], e["property"],
                        e["needs"], e.get("summary", "")], capture_output=True, text=True)
    last = (r.stdout.strip().splitlines() or ["?"])[-1]
    print(e["name"], "->", last[:160])
    ok += r.returncode == 0
print(f"{ok}/{len(spec)} ingested")
