"""Grammar-aware adversarial peer byte strings for V2 and V3 traffic (used by C09 and friends).

Every generator yields (label, bytes).  Labels name the *class* of malformation; they are used as mechanism keys.
"""
from __future__ import annotations

from .ref import acframe, acstate, v2, v3
from .ref.prim import cbc_encrypt, ecb_encrypt_blocks, sha256

GOOD_FRAME = acframe.build(acstate.encode_0xC0(acstate.default_state(), 23), acframe.FT_QUERY)


def v2_structured(rng, frame: bytes = GOOD_FRAME, device_id: int = 7):
    """Enumerated malformed V2 packets derived from an authentic one."""
    P = v2.build(frame, device_id)
    n = len(P)
    yield "v2-empty", b""
    # length field boundary values, with and without a recomputed signature
    for L in (0, 1, 5, 6, 16, 39, 40, 41, 55, 56, 57, n - 17, n - 16, n - 1, n + 1, n + 16, 255, 256, 65535):
        L &= 0xFFFF
        c = bytearray(P)
        c[4:6] = L.to_bytes(2, "little")
        yield "v2-length-field", bytes(c)
        body = bytes(c[:-16])
        yield "v2-length-field-resigned", body + v2.sign(body)
        if 16 <= L <= n:
            # signature valid for the *sliced* view the receiver will take
            view = bytearray(c[:L])
            if L >= 16:
                view[-16:] = v2.sign(bytes(view[:-16]))
                yield "v2-length-field-signed-for-slice", bytes(view) + bytes(c[L:])
    # correctly signed garbage ciphertext
    good_block = ecb_encrypt_blocks(v2.ENC_KEY, bytes(16))
    cts = [b"", b"\x00", rng.randbytes(5), rng.randbytes(15), rng.randbytes(16), rng.randbytes(17), rng.randbytes(31),
           rng.randbytes(32), rng.randbytes(48),
           ecb_encrypt_blocks(v2.ENC_KEY, bytes(15) + b"\x00"),             # pad byte 0
           ecb_encrypt_blocks(v2.ENC_KEY, bytes(15) + b"\x11"),             # pad byte 17
           ecb_encrypt_blocks(v2.ENC_KEY, bytes(14) + b"\x03\x02"),         # inconsistent pad
           ecb_encrypt_blocks(v2.ENC_KEY, b"\x10" * 16),                    # valid: empty frame
           good_block + rng.randbytes(7)]
    for ct in cts:
        yield "v2-signed-bad-ciphertext", v2.build(b"", device_id, ciphertext=ct)
    # header-only / sub-header with valid signature over what is there
    for hl in (0, 1, 6, 8, 20, 39, 40):
        body = P[:hl]
        yield "v2-signed-short", body + v2.sign(body)
    # prefixes
    for k in list(range(0, 60)) + [n - 17, n - 16, n - 1]:
        yield "v2-truncated", P[:k]
    # markers
    for m in (b"\x5a\x5b", b"\x00\x00", b"\xaa\x23", b"\x83\x70", b"\x5a\x00", b"\xff\xff"):
        yield "v2-marker", m + P[2:]
    # authentic packets (valid signature, valid frame) whose header fields hold boundary / meaningless values
    for lab, kw in (("msg-type", "msg_type"), ("magic", "magic"), ("msg-id", "msg_id"), ("timestamp", "timestamp"), ("reserved", "reserved")):
        width = {"msg_type": 2, "magic": 2, "msg_id": 4, "timestamp": 8, "reserved": 12}[kw]
        for fill in (b"\x00", b"\xff", b"\x7f", b"\x80"):
            yield "v2-authentic-header-field-" + lab, v2.build(frame, device_id, **{kw: fill * width})
    good_ts = bytes([50, 30, 15, 12, 15, 6, 24, 20])          # centiseconds, s, min, h, day, month, yy, century
    for pos in range(8):
        for val in (0, 1, 12, 13, 23, 24, 29, 30, 31, 32, 59, 60, 61, 99, 100, 128, 255):
            ts = bytearray(good_ts)
            ts[pos] = val
            yield "v2-authentic-header-field-timestamp", v2.build(frame, device_id, timestamp=bytes(ts))
    for ts in (bytes([0, 0, 0, 0, 31, 2, 24, 20]), bytes([0, 0, 0, 0, 29, 2, 23, 20]), bytes([0, 0, 0, 0, 31, 4, 24, 20]),
               bytes([99, 59, 59, 23, 31, 12, 99, 99]), bytes([0, 0, 0, 0, 1, 1, 0, 0]), bytes([0, 0, 0, 0, 1, 1, 1, 0])):
        yield "v2-authentic-header-field-timestamp", v2.build(frame, device_id, timestamp=ts)
    for did in (0, 1, 2 ** 48 - 1, 2 ** 64 - 1, 0x5A5A5A5A5A5A):
        yield "v2-authentic-header-field-device-id", v2.build(frame, did)
    yield "v2-double", P + P
    yield "v2-trailing-garbage", P + rng.randbytes(9)
    yield "v2-leading-garbage", rng.randbytes(3) + P
    yield "v2-raw-frame", frame
    yield "v2-signature-zero", P[:-16] + bytes(16)


def v2_random(rng):
    k = rng.randrange(7)
    if k == 6:
        return "v2-authentic-header-field-random", v2.build(GOOD_FRAME, rng.getrandbits(64), msg_type=rng.randbytes(2), magic=rng.randbytes(2),
                                                            msg_id=rng.randbytes(4), timestamp=rng.randbytes(8), reserved=rng.randbytes(12))
    if k == 0:
        return "random-bytes", rng.randbytes(rng.randint(0, 300))
    if k == 1:
        return "v2-random-after-marker", b"\x5a\x5a" + rng.randbytes(rng.randint(0, 120))
    P = bytearray(v2.build(rng.randbytes(rng.randint(0, 60)), rng.getrandbits(48)))
    if k == 2:
        for _ in range(rng.randint(1, 5)):
            P[rng.randrange(len(P))] = rng.randrange(256)
        return "v2-random-corruption", bytes(P)
    if k == 3:
        ct = rng.randbytes(rng.randint(0, 70))
        return "v2-signed-bad-ciphertext", v2.build(b"", 1, ciphertext=ct)
    if k == 4:
        P[4:6] = rng.randrange(65536).to_bytes(2, "little")
        body = bytes(P[:-16])
        return "v2-length-field-resigned", body + v2.sign(body)
    cut = rng.randint(0, len(P))
    return "v2-truncated", bytes(P[:cut])


def v3_wrap(skey: bytes, inner: bytes, counter: int = 0, ptype: int = v3.T_ENC_RESP) -> bytes:
    return v3.build_encrypted(skey, inner, counter, ptype)


def v3_raw(ptype: int, body: bytes, size: int | None = None, pad: int = 0, magic: int = 0x20) -> bytes:
    size = len(body) - 2 if size is None else size
    return v3.header(size & 0xFFFF, pad, ptype, magic) + body


def v3_outer_structured(rng, skey: bytes | None):
    """Malformed V3 packets at the outer (8370) level.  skey None => peer has no session key (pre-auth)."""
    key = skey or bytes(32)
    # every type nibble with several body shapes
    for ptype in range(16):
        for body in (b"", b"\x00\x00", bytes(2) + rng.randbytes(14), bytes(2) + rng.randbytes(62), bytes(2) + rng.randbytes(64),
                     rng.randbytes(48 + 32)):
            yield f"v3-type-{ptype:x}", v3_raw(ptype, body)
    # sizes
    for size in (0, 1, 15, 16, 31, 32, 33, 47, 48, 64, 65, 200):
        body = rng.randbytes(size + 2)
        for ptype in (v3.T_ENC_RESP, v3.T_HS_RESP, v3.T_ERROR):
            yield "v3-size", v3_raw(ptype, body, size=size)
    yield "v3-size-huge-incomplete", v3.header(65535, 0, v3.T_ENC_RESP) + rng.randbytes(40)
    yield "v3-header-only", v3.header(0, 0, v3.T_ENC_RESP)
    yield "v3-short-header", b"\x83\x70\x00"
    for magic in (0x00, 0x21, 0xFF):
        yield "v3-magic", v3_raw(v3.T_ENC_RESP, rng.randbytes(66), magic=magic)
    # ciphertext not block aligned (with a tag-looking tail)
    for ctlen in (1, 7, 15, 17, 31, 33):
        yield "v3-ciphertext-unaligned", v3_raw(v3.T_ENC_RESP, rng.randbytes(ctlen + 32), size=ctlen + 32 - 2)
    # valid tag, every pad nibble (pad larger than content etc.)
    for pad in range(16):
        for plen in (16, 32):
            plain = bytes(2) + rng.randbytes(plen - 2)
            hdr = v3.header(plen - 2 + 32, pad, v3.T_ENC_RESP)
            yield "v3-valid-tag-pad-nibble", hdr + cbc_encrypt(key, plain) + sha256(hdr + plain)
    # valid tag, empty plaintext
    hdr = v3.header(30, 0, v3.T_ENC_RESP)
    yield "v3-valid-tag-empty", hdr + sha256(hdr)
    yield "v3-garbage-no-marker", rng.randbytes(50).replace(b"\x83\x70", b"\x83\x71")
    yield "v3-error-packet", v3.build_error(0)
    yield "v3-double-marker", b"\x83\x70\x83\x70" + rng.randbytes(30)


def v3_random(rng, skey: bytes | None):
    key = skey or bytes(32)
    k = rng.randrange(5)
    if k == 0:
        return "random-bytes", rng.randbytes(rng.randint(0, 200))
    if k == 1:
        return "v3-random-after-marker", b"\x83\x70" + rng.randbytes(rng.randint(0, 120))
    if k == 2:
        body = rng.randbytes(rng.randint(0, 100))
        return f"v3-type-{rng.randrange(16):x}", v3_raw(rng.randrange(16), body, size=rng.choice([None, rng.randrange(0, 130)]) if len(body) >= 2 else 0,
                                                        pad=rng.randrange(16))
    if k == 3:
        label, inner = v2_random(rng)
        return "v3-valid-tag-over-" + label, v3_wrap(key, inner, rng.randrange(65536))
    P = bytearray(v3_wrap(key, v2.build(rng.randbytes(rng.randint(0, 40)), 3), 1))
    for _ in range(rng.randint(1, 4)):
        P[rng.randrange(len(P))] = rng.randrange(256)
    return "v3-random-corruption", bytes(P)
