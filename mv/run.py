"""Runner:  python -m mv.run <Cxx> [--tier quick|thorough] [--replay file] [--shard i/n] [--no-evidence]

A property module (mv/props/cNN.py) provides
    ID, LEVEL, RULE, ASSUMPTIONS, ANCHORS (reach suffixes that must have executed),
    MIN_NONTRIVIAL (dict tier -> int),
    generate(ctx, rng)  -> iterator of (key, case)      (case JSON-able)
    run_case(ctx, case) -> None                         (reports through ctx)
    finish(ctx)         -> None   (optional, per shard)
    WORKERS (dict tier -> int, optional)
"""
from __future__ import annotations

import argparse
import importlib
import json
import os
import random
import subprocess
import sys
import tempfile
import time
_real_time = time.time          # captured before the virtual wall clock is installed (runtime/vloop.py)
import traceback

from . import verdict

BUDGET = {"quick": 600.0, "thorough": 3000.0}     # wall-clock watchdog (firing => inconclusive)


def _load(pid: str):
    return importlib.import_module(f"mv.props.{pid.lower()}")


def run_shard(pid: str, tier: str, seed: int, shard: int, nshards: int) -> dict:
    from . import harness  # sets up repo import, clock, entropy
    from . import interleave
    mod = _load(pid)
    ctx = verdict.Ctx(pid, mod.LEVEL, tier, seed, shard, nshards)
    harness.seed_entropy(seed * 1000 + shard)
    rng = random.Random(seed)
    harness.REACH.start()
    deadline = _real_time() + BUDGET[tier]
    try:
        if hasattr(mod, "setup"):
            mod.setup(ctx)
        debug_every = getattr(mod, "DEBUG_LOGGING_EVERY", 5)
        history = getattr(mod, "PROCESS_HISTORY", True)
        n_case = 0
        for key, case in mod.generate(ctx, rng):
            if not ctx.mine(key):
                continue
            n_case += 1
            ctx.current_case = case
            # configuration dimension: every k-th case runs with msmart's loggers at DEBUG (into a null handler), which
            # makes every debug-only code path (argument evaluation, isEnabledFor branches) part of the execution
            ctx.debug_logging = bool(debug_every) and n_case % debug_every == 0
            # configuration dimension: the process has done other, unrelated things with the library before this case
            # (mv/interleave.py); a deterministic subset of the cases: 3, 10, 17, ... for the first 40, then every 101st
            ctx.preamble = None
            if history and ((n_case % 7 == 3 and n_case < 280) or n_case % 101 == 50):
                ctx.preamble = seed * 100003 + n_case
                ctx.bump("cases-preceded-by-other-library-activity")
                saved = dict(harness.REACH.counts)       # reach counters describe the check's own workload only
                ctx.bump("other-activity:" + interleave.other_activity(ctx.preamble))
                harness.REACH.counts.clear()
                harness.REACH.counts.update(saved)
            try:
                if ctx.debug_logging:
                    with harness.debug_logging():
                        mod.run_case(ctx, case)
                    ctx.bump("cases-run-with-debug-logging")
                else:
                    mod.run_case(ctx, case)
            except Exception:  # noqa: BLE001 - a harness bug, never a verdict
                ctx.harness_errors.append(traceback.format_exc()[-1500:])
                if len(ctx.harness_errors) > 20:
                    break
            if _real_time() > deadline:
                ctx.inconclusive_because("wall-clock watchdog fired before the workload completed")
                break
        ctx.current_case = None
        if hasattr(mod, "finish"):
            try:
                mod.finish(ctx)
            except Exception:  # noqa: BLE001
                ctx.harness_errors.append(traceback.format_exc()[-1500:])
    finally:
        harness.REACH.stop()
    part = ctx.dump_partial()
    part["reach"] = {a: harness.REACH.get(a) for a in getattr(mod, "ANCHORS", [])}
    return part


def main(argv=None) -> int:
    ap = argparse.ArgumentParser()
    ap.add_argument("pid")
    ap.add_argument("--tier", default=os.environ.get("VERIF_TIER", "quick"), choices=["quick", "thorough"])
    ap.add_argument("--replay")
    ap.add_argument("--shard")
    ap.add_argument("--out")
    ap.add_argument("--no-evidence", action="store_true")
    ap.add_argument("--workers", type=int)
    args = ap.parse_args(argv)
    pid = args.pid.upper()
    seed = int(os.environ.get("VERIF_SEED", "0") or 0)
    t0 = _real_time()

    if args.replay:
        return replay(pid, args.replay)

    if args.shard:
        i, n = (int(x) for x in args.shard.split("/"))
        part = run_shard(pid, args.tier, seed, i, n)
        with open(args.out, "w") as f:
            json.dump(part, f)
        return 0

    mod_workers = 1
    # import the module lazily in the parent only for metadata (imports harness -> repo)
    from . import harness  # noqa: F401
    mod = _load(pid)
    mod_workers = args.workers or getattr(mod, "WORKERS", {}).get(args.tier, 1)
    mod_workers = max(1, min(mod_workers, os.cpu_count() or 1))

    if mod_workers == 1:
        parts = [run_shard(pid, args.tier, seed, 0, 1)]
    else:
        parts = []
        tmpd = tempfile.mkdtemp(prefix=f"mv-{pid}-")
        procs = []
        for i in range(mod_workers):
            out = os.path.join(tmpd, f"part{i}.json")
            env = dict(os.environ)
            cmd = [sys.executable, "-m", "mv.run", pid, "--tier", args.tier, "--shard", f"{i}/{mod_workers}", "--out", out]
            procs.append((i, out, subprocess.Popen(cmd, env=env, cwd=verdict.VERIF, stdout=subprocess.PIPE,
                                                   stderr=subprocess.STDOUT, text=True)))
        for i, out, p in procs:
            try:
                so, _ = p.communicate(timeout=BUDGET[args.tier] + 120)
            except subprocess.TimeoutExpired:
                p.kill()
                so, _ = p.communicate()
                so = (so or "") + "\n[worker killed by watchdog]"
            if p.returncode != 0 or not os.path.exists(out):
                part = verdict.Ctx(pid, mod.LEVEL, args.tier, seed).dump_partial()
                part["inconclusive"] = [f"worker {i} failed rc={p.returncode}: {(so or '')[-400:]}"]
                part["reach"] = {}
                parts.append(part)
            else:
                with open(out) as f:
                    parts.append(json.load(f))
                os.remove(out)
        try:
            os.rmdir(tmpd)
        except OSError:
            pass

    merged = verdict.merge_partials(parts)
    reach = {}
    for p in parts:
        for k, v in p.get("reach", {}).items():
            reach[k] = reach.get(k, 0) + v
    for a in getattr(mod, "ANCHORS", []):
        if reach.get(a, 0) == 0:
            merged["inconclusive"].append(f"anchored mechanism never executed: {a}")
    need = getattr(mod, "MIN_NONTRIVIAL", {}).get(args.tier, 2)
    if merged["nontrivial"] < need and not merged["n_violations"]:
        merged["inconclusive"].append(f"only {merged['nontrivial']} distinct non-trivial cases (< {need})")
    for k, need_n in getattr(mod, "MIN_HIST", {}).get(args.tier, {}).items():
        if merged["hist"].get(k, 0) < need_n and not merged["n_violations"]:
            merged["inconclusive"].append(f"monitor '{k}' evaluated {merged['hist'].get(k, 0)} times (< {need_n})")
    meta = {
        "rule": mod.RULE,
        "assumptions": getattr(mod, "ASSUMPTIONS", []),
        "reach": reach,
        "workers": mod_workers,
        "exhaustive_parts": getattr(mod, "EXHAUSTIVE", {}).get(args.tier, []),
        "extra": {"python_hash_seed": os.environ.get("PYTHONHASHSEED"), "repo": os.environ.get("MSMART_VERIF_REPO", "/repo")},
    }
    return verdict.finalize(pid, mod.LEVEL, args.tier, seed, merged, meta, _real_time() - t0,
                            write_evidence=not args.no_evidence)


def replay(pid: str, path: str) -> int:
    from . import harness  # noqa: F401
    mod = _load(pid)
    with open(path) as f:
        rec = json.load(f)
    case = verdict.unjson(rec["case"])
    ctx = verdict.Ctx(pid, mod.LEVEL, rec.get("tier", "quick"), int(rec.get("seed", 0)), replaying=True)
    ctx.known = {}   # a replay always reports
    harness.seed_entropy(int(rec.get("seed", 0)) * 1000)
    if hasattr(mod, "setup"):
        mod.setup(ctx)
    ctx.current_case = case
    if rec.get("preamble") is not None:
        from . import interleave
        interleave.all_activities(int(rec["preamble"]))
    if rec.get("debug_logging"):
        with harness.debug_logging():
            mod.run_case(ctx, case)
    else:
        mod.run_case(ctx, case)
    if hasattr(mod, "finish"):
        mod.finish(ctx)
    if ctx.n_violations:
        for v in ctx.violations[:5]:
            print(f"VIOLATION property={pid} replay={path}")
            print(f"  mechanism={v['mechanism']} what={v['what']}")
            print("  detail=" + json.dumps(v["detail"])[:2000])
        return 1
    print(f"{pid} replay of {path}: no violation reproduced")
    return 0


def _guarded_main() -> int:
    """A crash of the machinery itself must never look like a verdict: exit 2 (inconclusive), never 1."""
    try:
        return main()
    except SystemExit:
        raise
    except BaseException:  # noqa: BLE001
        tb = traceback.format_exc()
        pid = sys.argv[1] if len(sys.argv) > 1 else "?"
        print(f"INCONCLUSIVE property={pid} reason=machinery-crash {tb.strip().splitlines()[-1][:300]}")
        sys.stderr.write(tb)
        return 2


if __name__ == "__main__":
    sys.exit(_guarded_main())
