"""Process history as a configuration dimension.

An application that uses msmart rarely does one thing per process: it discovers, talks to several devices, survives
faults, and only then performs the operation a check looks at.  ``other_activity(seed)`` performs one such unrelated
piece of library use (own simulated network, own virtual loop, own objects); nothing it does is judged and every
exception is swallowed.  On code where the properties hold it must be invisible to the case that follows; a change
that parks state on a class, a module or a function object (caches, flags left behind by an error path, shared
buffers) makes it visible.

The runner calls it before a deterministic subset of the cases of every check (see run.py) and records the seed in
the replay file.
"""
from __future__ import annotations

import random

KINDS = ["discovery-bad", "v2-session", "v3-session", "v3-faulty", "discovery-good", "codec", "aliases", "cloud"]


def other_activity(seed: int) -> str:
    r = random.Random(seed)
    kind = KINDS[seed % len(KINDS)]
    try:
        _RUN[kind](r)
    except Exception:  # noqa: BLE001 - not judged
        pass
    return kind


def all_activities(seed: int) -> None:
    for i in range(len(KINDS)):
        other_activity(seed * len(KINDS) + i)


# ---------------------------------------------------------------------------

def _discovery(r, bad: bool):
    from . import harness as H
    from .props import c18
    from .simdev import SimHost
    from msmart.discover import Discover
    net = H.new_net()
    hosts = []
    n = r.randint(4, 7) if bad else r.randint(1, 3)
    classes = r.sample(c18.BAD_CLASSES, n)
    for i in range(n):
        ip = f"10.77.0.{i + 1}"
        version = r.choice([2, 3])
        if bad and i > 0:
            payload = c18._bad_reply(classes[i], ip, version, r.randrange(1000))
        elif bad:
            good = c18._good_reply((r.getrandbits(48), 6444, r.getrandbits(16)), ip, version)
            payload = good[:-r.randint(1, 20)]          # a reply cut short
        else:
            payload = c18._good_reply((r.getrandbits(48), 6444, r.getrandbits(16)), ip, version)
        hosts.append(SimHost(net, ip, r.choice([6445, 20086]), replies=[(r.choice([0.0, 0.02]), None, payload)]))

    async def go(loop):
        return await Discover.discover(timeout=1, auto_connect=False)

    H.run_virtual(go, net)


def _session(r, version: int, faulty: bool):
    import asyncio
    from . import gen
    from . import harness as H
    from .ref import v3
    from .simdev import SimDevice
    from msmart.device import AirConditioner as AC
    net = H.new_net()
    token, key = r.randbytes(64), r.randbytes(32)
    dev = SimDevice(net, host="10.77.1.9", version=version, token=token, key=key, device_id=r.getrandbits(40), seed=r.getrandbits(16))
    dev.ac.caps_pages = [[(0x0210, b"\x01"), (0x0214, b"\x09"), (0x0215, b"\x01"), (0x0212, b"\x01"), (0x021A, b"\x01"), (0x0043, b"\x01"),
                          (0x0009, b"\x01"), (0x000A, b"\x01"), (0x0216, b"\x02"), (0x0040, bytes(r.randint(1, 3)))]]
    n = {"x": 0}

    def on_exchange(conn, req, packets, meta):
        n["x"] += 1
        if faulty and n["x"] == 3:
            # a corrupted reply, then an error packet
            p = bytearray(packets[0]) if packets else bytearray(b"\x83\x70\x00\x00\x20\x0f\x00\x00")
            p[len(p) // 2] ^= 0x40
            return [(0, bytes(p))]
        if faulty and n["x"] == 5:
            return [(0, packets[0][: len(packets[0]) // 2])] if packets else []
        return None

    dev.on_exchange = on_exchange

    async def go(loop):
        ac = AC(ip=dev.host, port=dev.port, device_id=dev.device_id)
        if version == 3:
            await ac.authenticate(token, key)
        await ac.get_capabilities()
        for i in range(4):
            await ac.refresh()
            gen.apply_to_ac(ac, gen.random_state(r))
            if i == 1:
                ac.vertical_swing_angle = AC.SwingAngle.POS_3
                ac.breezeless = True
            await ac.apply()
            await asyncio.sleep(r.choice([0.0, 0.5, 30.0]))
        await ac.toggle_display()
        await ac.refresh()

    H.run_virtual(go, net)


def _codec(r):
    """Direct use of the codecs with valid and invalid inputs."""
    from .ref import acframe, acstate, v2
    from msmart.device.AC.command import GetStateCommand, Response, SetStateCommand
    from msmart.lan import _Packet
    st = acstate.default_state()
    frames = [acframe.build(acstate.encode_0xC0(st), frame_type=3), acframe.build(acstate.encode_0xC0(st, length=24), frame_type=3, check="sum")]
    for f in frames:
        for mut in (None, 5, len(f) - 1, len(f) - 2):
            c = bytearray(f)
            if mut is not None:
                c[mut] ^= 0x11
            try:
                Response.construct(bytes(c))
            except Exception:  # noqa: BLE001
                pass
    GetStateCommand().tobytes()
    SetStateCommand().tobytes()
    pkt = v2.build(r.randbytes(r.randint(0, 60)), r.getrandbits(48))
    for cut in (None, len(pkt) - 3, 20):
        try:
            _Packet.decode(pkt if cut is None else pkt[:cut])
        except Exception:  # noqa: BLE001
            pass
    _Packet.encode(r.getrandbits(48), r.randbytes(r.randint(0, 40)))


def _aliases(r):
    """The deprecated attribute aliases, read and written (their 'warn once' state lives on function objects)."""
    import warnings
    from msmart.device import AirConditioner as AC
    ac = AC(ip="10.77.2.1", port=6444, device_id=1)
    with warnings.catch_warnings():
        warnings.simplefilter("ignore")
        for name in ("eco_mode", "turbo_mode", "sleep_mode", "freeze_protection_mode"):
            for _ in range(2):
                try:
                    v = getattr(ac, name)
                    setattr(ac, name, not v)
                except Exception:  # noqa: BLE001
                    pass


def _cloud(r):
    from . import harness as H
    from .ref import cloudsrv
    import msmart.cloud as mc
    model = cloudsrv.CloudModel({"user@example.com": "pw"}, {})
    model.invent_unknown = True

    async def go(loop):
        c = mc.NetHomePlusCloud("US", account="user@example.com", password="pw", get_async_client=model.client_factory())
        await c.login()
        await c.get_token(cloudsrv.udpid(r.getrandbits(40), "little"))

    H.run_virtual(go, H.new_net())


_RUN = {
    "discovery-bad": lambda r: _discovery(r, True),
    "discovery-good": lambda r: _discovery(r, False),
    "v2-session": lambda r: _session(r, 2, False),
    "v3-session": lambda r: _session(r, 3, False),
    "v3-faulty": lambda r: _session(r, 3, True),
    "codec": _codec,
    "aliases": _aliases,
    "cloud": _cloud,
}
