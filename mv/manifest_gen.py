"""Generate /verif/MANIFEST.json from one table (python -m mv.manifest_gen)."""
from __future__ import annotations

import importlib
import json
import os

VERIF = os.path.dirname(os.path.dirname(os.path.abspath(__file__)))

# pid -> (category, technique, level text, level note, design ref)
CHECKS = {
    "C01": ("exploration", "boundary-history runtime monitor: simulated device state vs state assigned through public setters (apply) and vs attributes of a fresh second client (refresh); register interval check on concurrent histories",
            "Every value of every settable field, boundary device ids, both protocol versions, bytes/hex credentials, five segmentation classes of the reply stream, 0..3 unsolicited/duplicate frames before/after the reply and bursts of 17..260 (state frames, or unrelated reports behind the reply followed by the client's own refresh), display toggle, a second authenticate() on the live V3 connection, a refresh of the same object in flight, the unit closing the idle connection between two applies, objects constructed before the event loop runs; re-apply histories with a second controller; concurrent sub-workload with 2..4 clients, random latencies, pushed change reports and segment coalescing, checked against the device's version timeline.",
            "One recorded known finding (V2 reply packet split across TCP segments) is keyed by mechanism (version 2 and a cut inside a packet) and only suppresses the refresh half of such cases.", "DESIGN.md section 2 C01"),
    "C02": ("exploration", "differential runtime monitor: real codec vs independent reference codec, exhaustive lengths + seeded random",
            "Every frame length 0..255 x boundary device ids enumerated in both directions plus seeded random frames/ids/instants and "
            "LAN.send on a simulated V2 connection (incl. retransmissions, long sessions, 15..257 responses to one request, replies followed by FIN/RST, frames that look like packets, packets the device pushes between two requests, 2-4 LAN objects at overlapping times) and 70 000+ packets encoded in one process; held-on-observed, not a proof.",
            "Trusts mv/ref/v2.py (independent V2 implementation) and the AES block primitive (cross-checked at setup).", "DESIGN.md section 2 C02"),
    "C03": ("fault_enumeration", "fault enumeration with an outcome-class runtime oracle on the real decoder (all bit flips, truncations, byte substitutions)",
            "Every single-bit flip and every truncation of authentic packets for every frame length 0..255, all 255 values of each marker/length byte and a 16-bit length catalogue, byte substitutions (all 255 values "
            "at every position in the thorough tier), random multi-byte corruptions, the authentic packet accepted before and between the altered copies, bytes following an authentic packet in the same chunk (protocol error or exactly the signed frame), and wire cases on V2 and inside valid V3 responses answering the first transmission or a retransmission or arriving late behind a good reply; a fault catalogue is repeated in a child interpreter started with -O; the only accepted outcome is ProtocolError.",
            "Trusts mv/ref/v2.py to build authentic packets and to recognise the (never observed) corruption that is still authentic.", "DESIGN.md section 2 C03"),
    "C04": ("exploration", "delivered-prefix runtime oracle on the real V3 protocol object under enumerated and random TCP segmentations; virtual-time promptness check through LAN.send",
            "All segmentations with <=2 (quick) / <=3 (thorough) cut points of ~90 generated streams of 1..4 packets incl. marker-bearing payloads and garbage prefixes, "
            "random many-cut and byte-by-byte segmentations, timed delivery (gaps up to 45 s) with a reader whose reads time out and are re-issued, a packet straddling two exchanges, plus full-stack runs (return instant judged against the same exchange delivered unsegmented; packets that had arrived must be returned) deciding promptness on virtual time.",
            "Trusts mv/ref/v3.py framing and the in-memory transport's copy of asyncio's data_received semantics.", "DESIGN.md section 2 C04"),
    "C05": ("fault_enumeration", "differential runtime monitor vs independent V3 codec + exhaustive single-bit tamper enumeration (direct and through LAN.send)",
            "Payload lengths 0..300 in both directions (decode both through _process_packet and through data_received/read in several segmentations, incl. responses searched to contain the start marker), counters 0..4095 (thorough), random keys, wire round trips on an authenticated simulated session, "
            "session sequences of varying length through one protocol instance (direct and via write()), and every single-bit flip of a response for every padding residue with the genuine response accepted before and between (all replies altered, or only the first); session keys with leading/trailing zero bytes; marker-like packet counters in front of marker-like payloads.",
            "Trusts mv/ref/v3.py; marker/size bit flips at the LAN.send level may end in TimeoutError (framing never completes).", "DESIGN.md section 2 C05"),
    "C10": ("exploration", "differential runtime monitor: 0x40 bodies captured by the simulated device decoded with a vendor-layout reference decoder; run-wide injectivity map",
            "Every value of every settable field, 62 setpoints x 6 modes, fan bytes 0..127, all 768 combinations of flags sharing a byte, pairwise array, seeded random states, with/without a capability profile queried first, with property setters pending, through the deprecated alias setters, against a device that reports its state with every reply, apply() overlapping a refresh() or another apply(), settings chosen by member name against the vendor codes; all through AirConditioner.apply() on the real stack.",
            "Trusts mv/ref/acstate.decode_0x40 (transliteration of the vendor Lua, line references kept) and the oracle choices listed in DESIGN.md C10 'S'.", "DESIGN.md section 2 C10"),
    "C11": ("exploration", "differential runtime monitor: attributes of a fresh AirConditioner after refresh() vs independent decode of the raw 0xC0 body the simulated device reported",
            "256 x 10 temperature/tenths per sensor per unit, 32 x 32 setpoint codes, all 256 values of each flag byte, fan 0..127, lengths 16..40 x both check styles, every value of the trailing check byte and of the frame checksum, random bodies; histories on one object (longer report first, same report around local edits, pushed report before a change).",
            "Trusts mv/ref/acstate.decode_0xC0 and the oracle choices in DESIGN.md C11 'S' (permissive presence rule, unspecified enum values and aux precedence not judged).", "DESIGN.md section 2 C11"),
    "C12": ("exploration", "strict spec-conforming frame parser + reference device command parser observing every frame emitted (direct tobytes() and on the simulated wire); message-id sequence monitor",
            "All command classes over their parameter domains (512 property subsets, every property value, both capability pages, states), public operations under several capability profiles (also against additive-check devices with junk/corrupted/missing/duplicated replies and with two clients at once), deferred serialisation, attribute reads (str/repr/to_dict/properties) between operations, and mixed sequences spanning many id wrap-arounds.",
            "Trusts mv/ref/acframe.py (bitwise CRC-8/MAXIM) and the reference device's command grammar in mv/simdev.py.", "DESIGN.md section 2 C12"),
    "C13": ("fault_enumeration", "single-byte fault enumeration on valid response frames with an independent validity predicate; state-diff and online/supported oracle after refresh()/get_capabilities()",
            "Every byte position after the start byte x substitute values (29 sampled in quick, all 255 in thorough; one frame or 2-5 copies per exchange; refresh, get_capabilities and toggle_display) x {plain, outer checksum recomputed} for state, capabilities, properties, energy and humidity responses; in half of the cases another client object accepts the genuine frame first; a capabilities query answered by the corrupted frame after the device went offline.",
            "Validity as defined in the statement's first sentence; corruptions that still satisfy it (other body check matches, property-response exemption) are skipped and counted.", "DESIGN.md section 2 C13"),
    "C14": ("fault_enumeration", "containment monitor: no exception may escape five public operations fed enumerated malformed-but-checksum-valid responses; good-frame-applied oracle on mixed exchanges",
            "All body/raw truncation lengths of every response kind, count/size bytes 0..255, records pointing past the end, every property/capability value, ids 0..255 x 6 frame types, random bodies, mixes of good and bad frames (state, one- and two-page capability replies with unsolicited 0xB5 frames, property reports), one-record capability profiles with every value followed by unusual state reports.",
            "Frames are delivered in authentic V2 packets; transport-level malformation belongs to C09.", "DESIGN.md section 2 C14"),
    "C06": ("fault_enumeration", "fault enumeration of the handshake reply against the real client + wire-log / stored-credential / follow-up-exchange oracles on a simulated V3 device",
            "Per random (token,key,nonce) triple: all 512 proof bit flips, reply lengths 0..80, all type nibbles, error/encrypted packets, foreign-key proofs, header/counter bit flips, late genuine replies, genuine replies in 2-3 TCP segments, session keys / credentials of special shapes, proofs containing the start markers, an abandoned authentication with new credentials, re-authentication histories on live / expired sessions; genuine replies verified by an encrypted exchange the device accepts.",
            "Trusts mv/ref/v3.py (proof = AES-CBC_K(nonce) || SHA256(nonce), session key nonce XOR K). Failed re-authentication on a live authenticated connection is not judged.", "DESIGN.md section 2 C06"),
    "C09": ("exploration", "containment monitor: allowed-exception-set oracle per entry point under a byte-level adversarial simulated peer (grammar-aware mutation of V2/V3 traffic)",
            "Structured catalogues (length-field boundaries, signed garbage ciphertext, authentic packets with boundary header fields, type nibbles x phases, pad nibbles, sizes, truncations, peer FIN/RST after or instead of its bytes) plus seeded random mutation, across LAN.send, LAN.authenticate, Device.authenticate, Device._send_command and AirConditioner.refresh/apply/get_capabilities/toggle_display incl. implicit re-authentication and peer bytes arriving 0..1.2 s after a genuine implicit handshake reply.",
            "The peer controls bytes only; exceptions inside protocol callbacks are recorded, judged only through what escapes the entry point.", "DESIGN.md section 2 C09"),
    "C15": ("exploration", "metamorphic runtime oracle on the real capability parser (whole list vs in-order merge of single records) and paging invariance through get_capabilities() for every split point",
            "Every known capability id x every value between sentinel records, temperature records of sizes 0..10 at every position, unknown/zero-size/odd-size records, random lists of <= 12 records; every split point across two responses; re-query on the same object with the same first page; a query abandoned while connecting before the judged one; records of different ids must not change each other's results.",
            "Only well-formed lists are judged; single-record interpretations come from the real parser (no value tables in the oracle).", "DESIGN.md section 2 C15"),
    "C07": ("exploration", "offline trace checker over the simulated device's per-connection wire log (decoded with the device's own keys) joined with the harness call log; virtual-time clock jumps",
            "All event histories of depth <= 3 (quick) / <= 4 (thorough) over a 13-letter alphabet with 4 connection-lifetime settings, directed periodic-use histories, random histories to depth 25, one long single-connection session (> 4096 / > 65536 packets) followed by 12 h jumps, the same histories under five TZ settings (DST changes on the jump), refused reconnects while the old connection is open, copies / pickles of the disconnected object, and credentials with whitespace / NUL edge bytes through Device.authenticate.",
            "Histories start with a successful authenticate; 'bad credentials' = token the device rejects; instants offset so no exchange starts exactly on an expiry boundary.", "DESIGN.md section 2 C07"),
    "C08": ("fault_enumeration", "virtual-time reference retry model vs transmissions counted by the simulated device; fault-sequence enumeration with a recovery oracle at LAN and device level",
            "All answer-delay patterns for retry budgets 1..4 on V2 and V3, every single fault and ordered pair (thorough: triple) of faults across connect (refused, hanging, unreachable, name resolution, several addresses refused, OS timeout, accept-then-close) / handshake / data phases with connection lifetime unset/90 s/1 h, cancellation instants on a 0.1 s grid, a unit that answers and closes at once, and a second event loop using the object of a first run.",
            "Timing verdicts on virtual time only; scripted delays never coincide with a timeout instant.", "DESIGN.md section 2 C08"),
    "C16": ("exploration", "client/device reference model over setter/apply/refresh histories: 0xB0 bodies captured by the simulated device vs changed-set, advertised id and vendor value encoding; read-back and breeze-exclusivity invariants",
            "All histories of depth <= 2 (quick) / <= 3 (thorough) over a per-profile alphabet for 14 capability profiles (breeze-control vs legacy both/away/breezeless/none, 2-/5-level/no rate select, iECO, swing angles, self clean), plus random histories up to length 20 over all enum values with ordinary control setters and display toggles in between, units that refuse a write (result 0x11), a setter running while apply() waits for the unit, read-back through a second client object, and objects made by deepcopy / pickle of a never-connected template.",
            "The simulated legacy device keeps breeze-away and breezeless mutually exclusive; a setting changed before an intervening refresh may or may not be transmitted.", "DESIGN.md section 2 C16"),
    "C17": ("exploration", "identity differential on a simulated UDP network: Device objects returned by discover()/discover_single() vs reference-built V2/V3 replies; probe acceptability judged against a private byte-exact copy of the probe",
            "All 256 type bytes x both hex cases x both versions, boundary ids/ports, reported-IP != source, both listening ports, 1..4 hosts, discover_single (address or host name), discovery_packets/timeout arguments, overlapping discoveries, UTF-8 serial numbers/names, non-zero unread header fields, wall-clock steps during the listening window, auto_connect against a simulated V2 device.",
            "Trusts mv/ref/discovery.py (reply layout from the protocol description, probe copy held in /verif).", "DESIGN.md section 2 C17"),
    "C18": ("exploration", "result-set and no-exception monitor over enumerated arrival interleavings of duplicate / malformed discovery replies on a simulated UDP network; event-loop exception handler watched",
            "Every distinct interleaving of <= 6 datagrams from <= 4 hosts, 22 bad-reply classes (incl. V1 announcements whose TCP port accepts) alone / next to good hosts / from every subset of hosts, good hosts of any type naming any address in their body, listening windows 1..8 s, ICMP errors delivered to the socket between replies, hosts sharing one device id, wall-clock steps, random larger schedules.",
            "Each host is consistently good or bad within a run; a V1 announcement whose TCP connect is refused or never completes is outside the statement's reply classes (DESIGN.md section 4, observation 3).", "DESIGN.md section 2 C18"),
    "C19": ("exploration", "model cloud server (httpx.MockTransport through get_async_client) verifying every request on the wire; returned-credential and retry/error-mapping oracles; end-to-end discovery + V3 authentication on the simulated network",
            "Match position x near-miss ids x list sizes, all fault scripts of length <= 3 per request stage over 6 fault kinds, credentials over printable ASCII incl. + & = % space @, built-in regional credentials, both udpid byte orders end to end, faults at the login and at the getToken stage of Discover.connect(), units silent on a foreign token, discovery with the region argument alone (built-in account per region), timeouts that take 10 s of loop time.",
            "No offline ground truth of the real server: the model is an independent second implementation of the documented algorithm, checked on the wire form.", "DESIGN.md section 2 C19"),
    "C20": ("exploration", "in-process runs of msmart.cli.main() on the virtual loop against a simulated device: final device state vs reported state overlaid with a README-derived interpretation; exit status and zero-I/O oracle for invalid input",
            "Every writable setting, every enumeration member and alias by name in three letter cases and by value, raw fan integers, int/float numbers, boolean spellings, display toggle 2x2, pairs and tuples of settings, V2 and V3 (--id/--token/--key), with/without --capabilities (also restricted capability profiles), lines run after a fresh import of msmart, and an invalid-input catalogue.",
            "Only documented spellings are judged; an uncaught exception counts as a non-zero exit. One recorded known finding (fan speed reset to AUTO after --capabilities + an effective display toggle on a unit without custom fan speeds) is keyed by mechanism.", "DESIGN.md section 2 C20"),
}

NOT_YET = "check not built yet in this round (planned in DESIGN.md section 2)"


def main() -> None:
    props = [json.loads(l)["id"] for l in open(os.path.join(VERIF, "properties.jsonl"))]
    checks = []
    for pid in props:
        if pid not in CHECKS:
            continue
        cat, tech, text, note, ref = CHECKS[pid]
        checks.append({
            "property_id": pid,
            "quick_cmd": f"./check {pid} --tier quick",
            "thorough_cmd": f"./check {pid} --tier thorough",
            "evidence_file": f"/verif/evidence/{pid}.json",
            "replay_cmd_template": f"./check {pid} --replay {{path}}",
            "engine": "mv",
            "level_claimed": {"category": cat, "text": text, "design_ref": ref},
            "level_note": note,
            "technique": tech,
        })
    man = {
        "version": 1,
        "setup_cmd": "./check --selftest",
        "hooks": {
            "guard": "MSMART_VERIF",
            "enable": "none needed: the monitors observe /repo's working tree from outside (simulated event loop/network, rebinding of "
                      "msmart.lan.datetime / get_random_bytes by the harness); no hook code exists in the repository",
            "baseline_off_cmd": "cd /repo && /venv/bin/python -m pytest -ra -q -p no:cacheprovider --timeout=900 --continue-on-collection-errors",
            "source_commits": [],
            "add_only": True,
        },
        "engines": [{
            "name": "mv",
            "path": "/verif/mv",
            "serves_properties": [c["property_id"] for c in checks],
            "kind_free_text": "runtime monitoring: virtual-time asyncio loop + simulated TCP/UDP/HTTP peers + independent reference "
                              "models; oracles over wire-boundary event logs; sys.monitoring reach counters",
        }],
        "checks": checks,
        "notes": "All checks run the real msmart code from /repo's working tree (or $MSMART_VERIF_REPO) under /venv/bin/python. "
                 "Exit 0 held-on-observed, 1 violation (VIOLATION line + replay file), 2 inconclusive. "
                 "known_findings.json lists recorded genuine defects by mechanism; it is never written at run time.",
        "not_applicable": [{"property_id": p, "reason": NOT_YET} for p in props if p not in CHECKS],
    }
    with open(os.path.join(VERIF, "MANIFEST.json"), "w") as f:
        json.dump(man, f, indent=1)
    print(f"MANIFEST.json: {len(checks)} checks, {len(man['not_applicable'])} not_applicable")


if __name__ == "__main__":
    main()
