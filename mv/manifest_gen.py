"""Generate /verif/MANIFEST.json from one table (python -m mv.manifest_gen)."""
from __future__ import annotations

import importlib
import json
import os

VERIF = os.path.dirname(os.path.dirname(os.path.abspath(__file__)))

# pid -> (category, technique, level text, level note, design ref)
CHECKS = {
    "C02": ("exploration", "differential runtime monitor: real codec vs independent reference codec, exhaustive lengths + seeded random",
            "Every frame length 0..255 x boundary device ids enumerated in both directions plus seeded random frames/ids/instants and "
            "LAN.send on a simulated V2 connection; held-on-observed, not a proof.",
            "Trusts mv/ref/v2.py (independent V2 implementation) and the AES block primitive (cross-checked at setup).", "DESIGN.md section 2 C02"),
    "C03": ("fault_enumeration", "fault enumeration with an outcome-class runtime oracle on the real decoder (all bit flips, truncations, byte substitutions)",
            "Every single-bit flip and every truncation of authentic packets for every frame length 0..255, byte substitutions (all 255 values "
            "at every position in the thorough tier), random multi-byte corruptions, and a sample through LAN.send; the only accepted outcome is ProtocolError.",
            "Trusts mv/ref/v2.py to build authentic packets and to recognise the (never observed) corruption that is still authentic.", "DESIGN.md section 2 C03"),
    "C04": ("exploration", "delivered-prefix runtime oracle on the real V3 protocol object under enumerated and random TCP segmentations; virtual-time promptness check through LAN.send",
            "All segmentations with <=2 (quick) / <=3 (thorough) cut points of ~90 generated streams of 1..4 packets incl. marker-bearing payloads and garbage prefixes, "
            "random many-cut and byte-by-byte segmentations, plus full-stack runs deciding promptness on virtual time.",
            "Trusts mv/ref/v3.py framing and the in-memory transport's copy of asyncio's data_received semantics.", "DESIGN.md section 2 C04"),
    "C05": ("fault_enumeration", "differential runtime monitor vs independent V3 codec + exhaustive single-bit tamper enumeration (direct and through LAN.send)",
            "Payload lengths 0..300 in both directions, counters 0..4095 (thorough), random keys, wire round trips on an authenticated simulated session, "
            "and every single-bit flip of a response for every padding residue.",
            "Trusts mv/ref/v3.py; marker/size bit flips at the LAN.send level may end in TimeoutError (framing never completes).", "DESIGN.md section 2 C05"),
}

NOT_YET = "check not built yet in this round (planned in DESIGN.md section 2)"


def main() -> None:
    props = [json.loads(l)["id"] for l in open(os.path.join(VERIF, "properties.jsonl"))]
    checks = []
    for pid in props:
        if pid not in CHECKS:
            continue
        cat, tech, text, note, ref = CHECKS[pid]
        checks.append({
            "property_id": pid,
            "quick_cmd": f"./check {pid} --tier quick",
            "thorough_cmd": f"./check {pid} --tier thorough",
            "evidence_file": f"/verif/evidence/{pid}.json",
            "replay_cmd_template": f"./check {pid} --replay {{path}}",
            "engine": "mv",
            "level_claimed": {"category": cat, "text": text, "design_ref": ref},
            "level_note": note,
            "technique": tech,
        })
    man = {
        "version": 1,
        "setup_cmd": "./check --selftest",
        "hooks": {
            "guard": "MSMART_VERIF",
            "enable": "none needed: the monitors observe /repo's working tree from outside (simulated event loop/network, rebinding of "
                      "msmart.lan.datetime / get_random_bytes by the harness); no hook code exists in the repository",
            "baseline_off_cmd": "cd /repo && /venv/bin/python -m pytest -ra -q -p no:cacheprovider --timeout=900 --continue-on-collection-errors",
            "source_commits": [],
            "add_only": True,
        },
        "engines": [{
            "name": "mv",
            "path": "/verif/mv",
            "serves_properties": [c["property_id"] for c in checks],
            "kind_free_text": "runtime monitoring: virtual-time asyncio loop + simulated TCP/UDP/HTTP peers + independent reference "
                              "models; oracles over wire-boundary event logs; sys.monitoring reach counters",
        }],
        "checks": checks,
        "notes": "All checks run the real msmart code from /repo's working tree (or $MSMART_VERIF_REPO) under /venv/bin/python. "
                 "Exit 0 held-on-observed, 1 violation (VIOLATION line + replay file), 2 inconclusive. "
                 "known_findings.json lists recorded genuine defects by mechanism; it is never written at run time.",
        "not_applicable": [{"property_id": p, "reason": NOT_YET} for p in props if p not in CHECKS],
    }
    with open(os.path.join(VERIF, "MANIFEST.json"), "w") as f:
        json.dump(man, f, indent=1)
    print(f"MANIFEST.json: {len(checks)} checks, {len(man['not_applicable'])} not_applicable")


if __name__ == "__main__":
    main()
