"""Generate /verif/MANIFEST.json from one table (python -m mv.manifest_gen)."""
from __future__ import annotations

import importlib
import json
import os

VERIF = os.path.dirname(os.path.dirname(os.path.abspath(__file__)))

# pid -> (category, technique, level text, level note, design ref)
CHECKS = {
    "C02": ("exploration", "differential runtime monitor: real codec vs independent reference codec, exhaustive lengths + seeded random",
            "Every frame length 0..255 x boundary device ids enumerated in both directions plus seeded random frames/ids/instants and "
            "LAN.send on a simulated V2 connection; held-on-observed, not a proof.",
            "Trusts mv/ref/v2.py (independent V2 implementation) and the AES block primitive (cross-checked at setup).", "DESIGN.md section 2 C02"),
}

NOT_YET = "check not built yet in this round (planned in DESIGN.md section 2)"


def main() -> None:
    props = [json.loads(l)["id"] for l in open(os.path.join(VERIF, "properties.jsonl"))]
    checks = []
    for pid in props:
        if pid not in CHECKS:
            continue
        cat, tech, text, note, ref = CHECKS[pid]
        checks.append({
            "property_id": pid,
            "quick_cmd": f"./check {pid} --tier quick",
            "thorough_cmd": f"./check {pid} --tier thorough",
            "evidence_file": f"/verif/evidence/{pid}.json",
            "replay_cmd_template": f"./check {pid} --replay {{path}}",
            "engine": "mv",
            "level_claimed": {"category": cat, "text": text, "design_ref": ref},
            "level_note": note,
            "technique": tech,
        })
    man = {
        "version": 1,
        "setup_cmd": "./check --selftest",
        "hooks": {
            "guard": "MSMART_VERIF",
            "enable": "none needed: the monitors observe /repo's working tree from outside (simulated event loop/network, rebinding of "
                      "msmart.lan.datetime / get_random_bytes by the harness); no hook code exists in the repository",
            "baseline_off_cmd": "cd /repo && /venv/bin/python -m pytest -ra -q -p no:cacheprovider --timeout=900 --continue-on-collection-errors",
            "source_commits": [],
            "add_only": True,
        },
        "engines": [{
            "name": "mv",
            "path": "/verif/mv",
            "serves_properties": [c["property_id"] for c in checks],
            "kind_free_text": "runtime monitoring: virtual-time asyncio loop + simulated TCP/UDP/HTTP peers + independent reference "
                              "models; oracles over wire-boundary event logs; sys.monitoring reach counters",
        }],
        "checks": checks,
        "notes": "All checks run the real msmart code from /repo's working tree (or $MSMART_VERIF_REPO) under /venv/bin/python. "
                 "Exit 0 held-on-observed, 1 violation (VIOLATION line + replay file), 2 inconclusive. "
                 "known_findings.json lists recorded genuine defects by mechanism; it is never written at run time.",
        "not_applicable": [{"property_id": p, "reason": NOT_YET} for p in props if p not in CHECKS],
    }
    with open(os.path.join(VERIF, "MANIFEST.json"), "w") as f:
        json.dump(man, f, indent=1)
    print(f"MANIFEST.json: {len(checks)} checks, {len(man['not_applicable'])} not_applicable")


if __name__ == "__main__":
    main()
